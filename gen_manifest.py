#!/usr/bin/env python3
"""Regenerates MANIFEST.json from the table below (kept in one place so it stays valid)."""
import json
CHECKS = {}
def chk(pid, text, note, technique, ref):
    CHECKS[pid] = dict(text=text, note=note, technique=technique, ref=ref)

chk("C01",
    "Bounded-exhaustive exploration of the real formatter+parser: every value of a finite universe (all 30 constructors, arity<=3 with duplicates and all insertion orders, one-hole nesting, towers, sentence/task item product with extreme stamps and floats) x 3 formats is formatted (3 routes) and re-parsed, and compared through an independent canonical form; unordered compounds additionally under every distinguishable hash-iteration order of their sets.",
    "Names limited to the per-format alphabet, nesting<=3 except towers; canonical form and recipes are harness code; hash order owned through the verif_hooks SeededState hook (only the key source changes).",
    "bounded exhaustive enumeration of values x hash-order environments against the real code, reference canonical form as oracle",
    "5/C01")

ALL = ["C%02d" % i for i in range(1, 18)]
NOT_YET = {}
manifest = {
  "version": 1,
  "setup_cmd": "cd /verif/harness && CARGO_NET_OFFLINE=true CARGO_TARGET_DIR=/verif/target cargo build --release --offline",
  "hooks": {
    "guard": "cargo feature verif_hooks (off by default)",
    "enable": "the harness crate depends on narsese = { path = \"/repo\", features = [\"verif_hooks\"] }",
    "baseline_off_cmd": "cd /repo && cargo test --workspace --no-fail-fast --offline",
    "source_commits": ["36ade45"],
    "add_only": True
  },
  "engines": [
    {"name": "nvcheck", "path": "/verif/harness", "serves_properties": sorted(CHECKS),
     "kind_free_text": "purpose-built bounded-exhaustive explorer in Rust: value/string/hash-order/operation-sequence enumerators run against the real crate, reference models as oracles; stateright for explicit-state search"}
  ],
  "checks": [],
  "not_applicable": [],
  "notes": "Exit codes: 0 held (possibly with KNOWN-FINDING lines), 1 VIOLATION, 2 machinery failure. See DESIGN.md."
}
for pid in ALL:
    if pid in CHECKS:
        c = CHECKS[pid]
        manifest["checks"].append({
            "property_id": pid,
            "quick_cmd": f"./check {pid} quick",
            "thorough_cmd": f"./check {pid} thorough",
            "evidence_file": f"/verif/evidence/{pid}.json",
            "replay_cmd_template": f"./check {pid} --replay {{path}}",
            "engine": "nvcheck",
            "level_claimed": {"category": "model_checking", "text": c["text"], "design_ref": c["ref"]},
            "level_note": c["note"],
            "technique": c["technique"],
        })
    else:
        manifest["not_applicable"].append({"property_id": pid, "reason": NOT_YET.get(pid, "check not built yet in this round (planned, see DESIGN.md section 5); not claimed until it runs")})
json.dump(manifest, open("/verif/MANIFEST.json", "w"), indent=1, ensure_ascii=False)
print("checks:", len(manifest["checks"]), "not_applicable:", len(manifest["not_applicable"]))
