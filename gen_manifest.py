#!/usr/bin/env python3
"""Regenerates MANIFEST.json from the table below (kept in one place so it stays valid)."""
import json
CHECKS = {}
def chk(pid, text, note, technique, ref):
    CHECKS[pid] = dict(text=text, note=note, technique=technique, ref=ref)

chk("C01",
    "Bounded-exhaustive exploration of the real formatter+parser: every value of a finite universe (all 30 constructors, arity<=3 with duplicates and all insertion orders, one-hole nesting, towers 2..40 deep with the nested child in every position, every constructor triple on one path, wide terms (to 257; 1024 / 1500 / 4097 components, 600 sets, 260 statements, a 4000-statement sequence, 70 000-character names), fat and side-by-side towers, reducible shapes, hash twins, numeric families with every digit count and the neighbours of powers of two and ten, names with one character of every identifier class in every position and truncation aliases of keywords, sentence/task item product with extreme stamps and floats) x 3 formats is formatted (every public formatting route; each route's text on its own) and re-parsed, and compared through an independent canonical form; unordered compounds additionally under every distinguishable hash-iteration order of their sets.",
    "Names limited to the per-format alphabet, nesting<=3 except towers; canonical form and recipes are harness code; hash order owned through the verif_hooks SeededState hook (only the key source changes).",
    "bounded exhaustive enumeration of values x hash-order environments against the real code, reference canonical form as oracle",
    "5/C01")

chk("C02",
    "Bounded-exhaustive exploration of the real lexical formatter+parser: every lexical value of a finite universe built from each format's own vocabulary (any connecter/arity combination incl. zero components, sets, 13 copulas, one-hole nesting, towers to depth 64 in every child position, reducible shapes, digit strings of every length 1..25 in every numeric slot, sentence/task item product with 0..9 truth/budget entries and every stamp form) x 3 formats, format (every public formatting route, each text on its own) then parse, structural equality.",
    "Derived == on the lexical tree is trusted; names from the per-format alphabet; depth<=2 (3 in thorough).",
    "bounded exhaustive enumeration of lexical values against the real formatter and parser",
    "5/C02")
chk("C03",
    "Every string the enum formatter emits for the C01 universe, plus every statement written with each derived copula bare and inside 5 one-hole contexts, x 3 formats, is pushed through both pipelines of the real code (enum parser; lexical parser + fold) and the results compared canonically (and with the documented desugaring); the enum and lexical vocabulary tables are compared category by category.",
    "Same bounds as C01; a consistent change of a keyword in both tables of a format is invisible here (see C11 for ASCII).",
    "bounded exhaustive enumeration of surface strings through both real pipelines, differential oracle + reference desugaring",
    "5/C03")
chk("C10",
    "All operand pairs over atoms and constructor representatives x all 13 copulas, the four derived constructors called directly on every operand pair, image component lists of length 1..4 with 0/1/2 placeholders and placeholder spellings incl. tails ending in copula prefixes, interval spellings incl. leading zeros / usize::MAX / overflow, x 3 formats x 2 pipelines of the real code, compared with expected values written independently in raw variants.",
    "Expected meanings are taken from the property statement; operands limited to atoms + one representative per constructor.",
    "bounded exhaustive enumeration of sugared inputs against a reference meaning",
    "5/C10")
chk("C14",
    "Every term of the C01 term universe (every constructor, image index 0..=n, duplicates, nesting) is built through the public constructors and its consuming extraction, both borrowing accessors, category and the 8 capacity predicates are compared with the recipe; unordered terms under every distinguishable hash-iteration order; every lexical term of the C02 universe and every hostile lexical term under all three folders: extraction vs stored components, category vs category of its fold.",
    "Recipe -> expectation mapping is harness code; hash order owned through the verif_hooks hook.",
    "bounded exhaustive enumeration of terms x hash-order environments, reference model of components/category/capacity",
    "5/C14")
chk("C15",
    "Every sentence/task of the item product (tops x 4 punctuations x 9 stamps x 8 truths x 7 budget shapes) and every top term, in the enum and the lexical model, x 3 formats: classification by both real parsers, cast laws, wrap/unwrap matrix (inherent accessors and std TryFrom), predicates, task-compatible conversion, value-level cast, printed form of cast_to_task(s).",
    "Enum equality through the canonical form; lexical equality through derived ==.",
    "bounded exhaustive enumeration of values against the conversion laws",
    "5/C15")

chk("C04",
    "Every token string of length<=3 (4 thorough) over each format's full token alphabet, every string at one deviation from ~150 well-formed token lists (with/without spaces; thorough adds truncation o edit), 512-char repetition and 64-deep bracket-tower families (child first / later, bare and inside hashing containers), 58 number spellings at every numeric boundary in 11 slots, and EVERY code point of a stated range (quick: BMP + emoji + tag blocks, 83 k; thorough: all 1 112 064 scalar values) in 7 (11) position templates, through all 9 public enum parsing entry points (batch entry points fed by unsized iterators) x 3 formats on 2 MiB stacks with catch_unwind and a non-termination watchdog on thread CPU time; plus the complete (len,index) grid of ParseError::new + Display.",
    "Totality is decided for these string families and for every cursor position, not for every string of <=512 chars; an abort (stack overflow) would surface as machinery failure, not as a pass.",
    "bounded exhaustive enumeration of token strings and deviation-bounded mutants against the real parser entry points",
    "5/C04")
chk("C05",
    "The same string spaces as C04 through lexical parse and parse_term x 3 formats; every lexical value of a hostile universe (every keyword of every category of every format, keyword+name strings, unknown strings of 28 lengths up to 101 in 1..4-byte characters, empty and garbage strings in every field, 0..3/4 components, 14 number strings in lists of 0..4, ~300 stamp strings; plus the regular lexical universes of all formats incl. 64-deep towers) folded with each of the 3 enum formats, under catch_unwind and a watchdog.",
    "As C04; hostile universe depth<=2.",
    "bounded exhaustive enumeration of strings and hostile lexical values against the real lexical parser and fold",
    "5/C05")
chk("C12",
    "Every Ok value the enum parser returns on the C04 string spaces, fold returns on the C05 hostile universe, and lexical parse + fold returns on the string spaces is checked for ranges, image index, non-empty names, (parser) non-empty compounds, then formatted in all 3 formats and rendered to Typst under catch_unwind.",
    "Well-formedness read off public variants; '(/, _)' not counted as empty.",
    "bounded exhaustive enumeration of accepted inputs with a well-formedness invariant on every accepted value",
    "5/C12")

chk("C06",
    "A recipe family (7 unordered constructors over atoms and nested items in every insertion sequence incl. duplicates, 3 symmetric statements over all operand pairs, nested symmetric statements, ordered/image/asymmetric controls, same name under different atom kinds, hash twins in every ordered pair, word pairs whose hashes collide in 32 / 16 bits, sets of up to 130 elements, differently grown tables, parsed texts, and every variable-arity constructor with 1..17 components through 8 construction routes) is built on the real code under EVERY distinguishable combination of hash-iteration orders of its sets (stateless DFS over the environment's key choices through the SeededState hook); then ALL pairs of builds are compared: (a==b), (b==a) must equal (canon(a)=canon(b)); reflexivity; derived == of Sentence/Task/Narsese wrappers.",
    "Hook replaces only the source of the SipHash key of TermSetType; sets of <=3 elements nested <=2; every k! order realised (else exhaustive=false is reported).",
    "exhaustive exploration of hash-order environments (controlled nondeterminism) x recipes on the real code, all-pairs comparison against a canonical-form oracle",
    "5/C06")
chk("C07",
    "Same builds as C06; for every pair of builds with equal canonical form: equal finish() under DefaultHasher, SipHash with 3 fixed keys and FNV-1a, HashSet{a}.contains(b), HashMap{a->1}.get(b), re-insertion keeps one entry.",
    "As C06.",
    "exhaustive exploration of hash-order environments x recipes, all canon-equal pairs",
    "5/C07")
chk("C08",
    "Explicit-state search (stateright BFS, run twice, counts compared) over the real reused ParseState: state = every field of the reused ParseState except the constant format (mid_result, character buffer, recorded length, cursor), transition = one real parse_multi loop body (hook MultiParser::step) over a 35-input alphabet per format (complete/partial/failing inputs), to a fixpoint; every transition compared with a fresh parse; every explored history replayed through the public parse_multi (traces_validated_against_impl); hook-free sweep of all sequences of length<=2 (4), each through three kinds of input iterator; soak sweep x^k y and (x y)^k for k up to 300 over the alphabet plus 64-deep towers; 14 special code points at both ends of every input on all three routes; parse_chars vs parse vs parse_multi on every formatted value; lexical parse sequences on the shared static formats.",
    "States are merged on all fields of the real ParseState (hook buffer_view + residue), so no assumption about reset_to is needed; alphabet of 35 (47 thorough) inputs per format.",
    "explicit-state model checking (stateright BFS to fixpoint) of the real parser object + replay of all explored traces against the public API",
    "5/C08")
chk("C09",
    "For every value of a term universe and a sentence/task cover, the reference token list under every spacing at <=1 deviation from 'no spaces' and from 'spaces everywhere' (thorough: <=2 spaces anywhere), through the enum parser and lexical parse+fold x 3 formats; tab/newline/U+3000/U+00A0 (thorough: all 25 White_Space characters) for the lexical pipeline and parse_chars(strip_whitespace()); every public route into the lexical parser (methods and free functions of parse and parse_term) on every spaced string; literal invocations of all eight macros incl. literals with tab / newline / CR LF / U+3000 / U+00A0.",
    "Token boundaries are those of the harness' reference formatter.",
    "deviation-bounded exhaustive enumeration of spacings of well-formed token lists against both real pipelines",
    "5/C09")
chk("C11",
    "Every ASCII string printed by the enum formatter (C01 universe) and the lexical formatter (C02 universe, >=1 component) is interpreted with the PEG grammar read from README.md (own pest-semantics interpreter) - the text of every public formatting route, each on its own; the kind and the derived tree are compared with the ASCII lexical parser's result; FORMAT_ASCII (enum and lexical) is compared with the OpenNARS lexicon entry by entry.",
    "Grammar read as task~EOI | sentence~EOI | term~EOI; Unicode classes from the regex crate; lexicon table is a literal in the harness.",
    "bounded exhaustive enumeration of formatter outputs against an independent reference grammar interpreter",
    "5/C11")
chk("C13",
    "All tuples of arity 0..4 (5 thorough) over a 21-value float alphabet (infinities, NaNs, -0.0, subnormals, 1-ulp, 1+ulp, ...) through the fallible and panicking constructors of Truth and Budget (components supplied through Vec, filter, from_fn and copied iterators) and every getter incl. the EvidentValue trait on Truth and on (V, V); is_valid/try_validate/validate/root/zero/one on every float.",
    "f64 only (the only EvidentNumber instance); oracle 0<=x<=1.",
    "bounded exhaustive enumeration of float tuples against a reference predicate",
    "5/C13")
chk("C16",
    "Every value of the C01 universe (incl. digit-like names, the name-class family, numeric families) plus stand-alone items and a float-neighbour family is rendered to Typst on the real code: no panic, trimmed, no doubled whitespace; one table rendering -> canonical class over the whole universe detects collisions; unordered families are rendered under every distinguishable hash-iteration order and canonically equal recipes must have equal rendering sets.",
    "Injectivity is decided within the enumerated universe only.",
    "bounded exhaustive enumeration of values x hash-order environments, collision table against canonical forms",
    "5/C16")
chk("C17",
    "Explicit-state search (stateright BFS, run twice) from one term per constructor: every transition applies one real set_atom_name (33 strings) or push_components (8 lists) call to the real term (rebuilt by replaying the history) and the reference model to its canonical form; outcome, post-state, get_atom_name and unchanged-on-Err are checked on every transition; depth 3 (5 thorough); one-step sweeps: every string of <=4 characters over 9 characters as a new name, old name x new name over 22 related names, pushes of a representative of every constructor and of the target itself through Vec / filter / from_fn, mirrored equal components built under 6 hash keys with the number of components actually held compared.",
    "Deduplication on the canonical form; reference model is 60 lines in the harness.",
    "explicit-state model checking (stateright BFS, depth-bounded) of the real term under its mutators against a reference model",
    "5/C17")

E5_TEXT = (" Call histories (E5): every ordered pair of calls - the property's own oracle on 40-110 plain inputs, preceded by any of "
           "~130 context calls (calls that fail half-way, the same calls in the other formats, look-alike values, format instances "
           "created and dropped by the caller, values built on another thread) - each pair on a brand-new OS thread, compared with the "
           "same call made in a fresh process (thorough: every triple over a thinned alphabet). Non-termination of any case is a verdict "
           "(watchdog on thread CPU time around every library call).")
E5_TECH = " + exhaustive enumeration of two-call histories on fresh threads against fresh-process baselines (hidden thread-local / static state)"
for pid, c in CHECKS.items():
    if pid == "C04":
        c["text"] += " Non-termination of any case is a verdict (watchdog on thread CPU time). Its entry points are ops of C08's call-history exploration."
        continue
    if pid == "C08":
        c["text"] += (" Call histories (E5): every ordered pair over ~260 ops (enum parser, lexical parser, lexical parse + fold x 3 formats x the alphabet, the other "
                      "formats' texts, both parsers twice in a row, copied / owned / ASCII-like custom format instances, names holding the supplementary-plane twin "
                      "of a keyword character), each pair on a brand-new OS thread, compared with the same call in a fresh process; any difference counts.")
        c["technique"] += E5_TECH
        continue
    c["text"] += E5_TEXT
    c["technique"] += E5_TECH
DEEP_TEXT = (" Deep towers: one tower per nesting position (22 makers) and per depth next to the powers of two from 65 up to %s levels, "
             "evaluated with this check's own oracle on 1 GiB stacks, with a twin that differs in the innermost leaf and a tower one level taller "
             "where the property relates two values.")
DEEP_CAP = {"C01": "4097 (thorough 4098)", "C06": "4097 (thorough 4098)", "C07": "4097 (thorough 4098)", "C14": "4097 (thorough 4098)",
            "C02": "514 (thorough 1026)", "C03": "514 (thorough 1026)", "C12": "514 (thorough 1026)", "C11": "257 (thorough 514)", "C16": "1025 (thorough 1026)"}
for pid, cap in DEEP_CAP.items():
    CHECKS[pid]["text"] += DEEP_TEXT % cap
CHECKS["C08"]["text"] += (" Volume: 245 x 70 000 characters (a long word / a wide product / a rejected run; > 2^24 characters) and then the whole alphabet in ONE parse_multi batch, "
                          "every position against the input parsed alone. Derived formats: seven edits of the public keyword tables applied to a clone of a format that has "
                          "already served the alphabet, to a clone of the shipped instance, and undone again, against the same edit made before the first use - both parsers, 3 formats.")
CP_TEXT = " One name per identifier code point (a<c>b for every code point of the BMP, the emoji and tag blocks and every 64th above; thorough: every scalar value) that the format accepts and that occurs in none of its keywords, bare and inside a statement."
for pid in ("C01", "C02", "C03", "C16"):
    CHECKS[pid]["text"] += CP_TEXT
CHECKS["C15"]["text"] += " The text of every public formatting route is classified (both models)."
CHECKS["C15"]["text"] += " Every ordered pair of the 540 item-subset inputs as a two-input parse_multi batch, and the whole list as one batch in both orders: the kind of every accepted position follows the stated rule."
CHECKS["C08"]["text"] += " parse::<X> vs parse_chars::<X> for every generic target X on the thorough alphabet."
ALL = ["C%02d" % i for i in range(1, 18)]
NOT_YET = {}
manifest = {
  "version": 1,
  "setup_cmd": "cd /verif/harness && CARGO_NET_OFFLINE=true CARGO_TARGET_DIR=/verif/target cargo build --release --offline",
  "hooks": {
    "guard": "cargo feature verif_hooks (off by default)",
    "enable": "the harness crate depends on narsese = { path = \"/repo\", features = [\"verif_hooks\"] }",
    "baseline_off_cmd": "cd /repo && cargo test --workspace --no-fail-fast --offline",
    "source_commits": ["36ade45", "031585a"],
    "add_only": True
  },
  "engines": [
    {"name": "nvcheck", "path": "/verif/harness", "serves_properties": sorted(CHECKS),
     "kind_free_text": "purpose-built bounded-exhaustive explorer in Rust: value/string/hash-order/operation-sequence enumerators run against the real crate, reference models as oracles; stateright for explicit-state search"}
  ],
  "checks": [],
  "not_applicable": [],
  "notes": "Exit codes: 0 held (possibly with KNOWN-FINDING lines), 1 VIOLATION, 2 machinery failure. See DESIGN.md."
}
for pid in ALL:
    if pid in CHECKS:
        c = CHECKS[pid]
        manifest["checks"].append({
            "property_id": pid,
            "quick_cmd": f"./check {pid} quick",
            "thorough_cmd": f"./check {pid} thorough",
            "evidence_file": f"/verif/evidence/{pid}.json",
            "replay_cmd_template": f"./check {pid} --replay {{path}}",
            "engine": "nvcheck",
            "level_claimed": {"category": "model_checking", "text": c["text"], "design_ref": c["ref"]},
            "level_note": c["note"],
            "technique": c["technique"],
        })
    else:
        manifest["not_applicable"].append({"property_id": pid, "reason": NOT_YET.get(pid, "check not built yet in this round (planned, see DESIGN.md section 5); not claimed until it runs")})
json.dump(manifest, open("/verif/MANIFEST.json", "w"), indent=1, ensure_ascii=False)
print("checks:", len(manifest["checks"]), "not_applicable:", len(manifest["not_applicable"]))
