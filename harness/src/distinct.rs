//! Sharded set of 64-bit hashes: counts distinct strings without keeping them.
use std::collections::HashSet;
use std::hash::{Hash, Hasher};
use std::sync::Mutex;

pub struct Distinct {
    shards: Vec<Mutex<HashSet<u64>>>,
}
impl Distinct {
    pub fn new() -> Self {
        Distinct { shards: (0..256).map(|_| Mutex::new(HashSet::new())).collect() }
    }
    pub fn add(&self, s: &str) -> bool {
        let mut h = std::collections::hash_map::DefaultHasher::new();
        s.hash(&mut h);
        let v = h.finish();
        self.shards[(v >> 56) as usize].lock().unwrap().insert(v)
    }
    pub fn len(&self) -> u64 {
        self.shards.iter().map(|s| s.lock().unwrap().len() as u64).sum()
    }
}
