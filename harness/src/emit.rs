//! Reference formatter: value -> *token list*, written from the documentation of the surface
//! syntax (bracket, connecter first, separator between components, infix copula, item order
//! budget - term - punctuation - stamp - truth). Keywords are read from the format instance;
//! the layout is not shared with the library's formatter.

use crate::fmts::F;
use crate::model::*;

pub type Toks = Vec<String>;

fn push(out: &mut Toks, s: &str) {
    out.push(s.to_string());
}

pub fn connecter(f: &F, tag: Tag) -> &'static str {
    let c = &f.e.compound;
    match tag {
        Tag::IntExt => c.connecter_intersection_extension,
        Tag::IntInt => c.connecter_intersection_intension,
        Tag::DiffExt => c.connecter_difference_extension,
        Tag::DiffInt => c.connecter_difference_intension,
        Tag::Product => c.connecter_product,
        Tag::ImageExt => c.connecter_image_extension,
        Tag::ImageInt => c.connecter_image_intension,
        Tag::Conj => c.connecter_conjunction,
        Tag::Disj => c.connecter_disjunction,
        Tag::Neg => c.connecter_negation,
        Tag::SeqConj => c.connecter_conjunction_sequential,
        Tag::ParConj => c.connecter_conjunction_parallel,
        _ => panic!("no connecter for {:?}", tag),
    }
}

pub fn copula(f: &F, tag: Tag) -> &'static str {
    let s = &f.e.statement;
    match tag {
        Tag::Inh => s.copula_inheritance,
        Tag::Sim => s.copula_similarity,
        Tag::Impl => s.copula_implication,
        Tag::Equiv => s.copula_equivalence,
        Tag::ImplPred => s.copula_implication_predictive,
        Tag::ImplConc => s.copula_implication_concurrent,
        Tag::ImplRetro => s.copula_implication_retrospective,
        Tag::EquivPred => s.copula_equivalence_predictive,
        Tag::EquivConc => s.copula_equivalence_concurrent,
        _ => panic!("no copula for {:?}", tag),
    }
}

pub fn atom_prefix(f: &F, tag: Tag) -> &'static str {
    let a = &f.e.atom;
    match tag {
        Tag::Word => a.prefix_word,
        Tag::Placeholder => a.prefix_placeholder,
        Tag::IVar => a.prefix_variable_independent,
        Tag::DVar => a.prefix_variable_dependent,
        Tag::QVar => a.prefix_variable_query,
        Tag::Interval => a.prefix_interval,
        Tag::Operator => a.prefix_operator,
        _ => panic!("no prefix for {:?}", tag),
    }
}

/// Tokens of a term. Children are written in recipe order; for unordered constructors later
/// duplicates (by canonical form) are dropped, as a set holds each element once.
pub fn term(f: &F, r: &R, out: &mut Toks) {
    let c = &f.e.compound;
    match r.tag.shape() {
        Shape::Atom => {
            let p = atom_prefix(f, r.tag);
            out.push(match r.tag {
                Tag::Placeholder => p.to_string(),
                Tag::Interval => format!("{p}{}", r.idx),
                _ => format!("{p}{}", r.name),
            });
        }
        Shape::Set if matches!(r.tag, Tag::SetExt | Tag::SetInt) => {
            let (lb, rb) = if r.tag == Tag::SetExt {
                c.brackets_set_extension
            } else {
                c.brackets_set_intension
            };
            push(out, lb);
            let mut seen: Vec<R> = vec![];
            for k in &r.kids {
                let ck = k.canon();
                if seen.contains(&ck) {
                    continue;
                }
                if !seen.is_empty() {
                    push(out, c.separator);
                }
                seen.push(ck);
                term(f, k, out);
            }
            push(out, rb);
        }
        Shape::Set | Shape::Seq | Shape::Unary | Shape::Image | Shape::Pair | Shape::SymPair
            if !r.tag.is_statement() =>
        {
            push(out, c.brackets.0);
            push(out, connecter(f, r.tag));
            let mut seen: Vec<R> = vec![];
            let dedup = r.tag.shape() == Shape::Set;
            let mut i = 0usize;
            let mut placeholder_written = r.tag.shape() != Shape::Image;
            for k in &r.kids {
                if !placeholder_written && i == r.idx {
                    push(out, c.separator);
                    push(out, f.e.atom.prefix_placeholder);
                    placeholder_written = true;
                }
                if dedup {
                    let ck = k.canon();
                    if seen.contains(&ck) {
                        continue;
                    }
                    seen.push(ck);
                }
                push(out, c.separator);
                term(f, k, out);
                i += 1;
            }
            if !placeholder_written {
                push(out, c.separator);
                push(out, f.e.atom.prefix_placeholder);
            }
            push(out, c.brackets.1);
        }
        _ => {
            // statements
            let s = &f.e.statement;
            push(out, s.brackets.0);
            term(f, &r.kids[0], out);
            push(out, copula(f, r.tag));
            term(f, &r.kids[1], out);
            push(out, s.brackets.1);
        }
    }
}

pub fn term_toks(f: &F, r: &R) -> Toks {
    let mut v = vec![];
    term(f, r, &mut v);
    v
}

pub fn float(x: f64) -> String {
    format!("{}", x)
}

pub fn punct(f: &F, p: P) -> &'static str {
    let s = &f.e.sentence;
    match p {
        P::Judgement => s.punctuation_judgement,
        P::Goal => s.punctuation_goal,
        P::Question => s.punctuation_question,
        P::Quest => s.punctuation_quest,
    }
}

pub fn stamp(f: &F, st: St, out: &mut Toks) {
    let s = &f.e.sentence;
    if st == St::Eternal {
        return;
    }
    if !s.stamp_brackets.0.is_empty() {
        push(out, s.stamp_brackets.0);
    }
    match st {
        St::Past => push(out, s.stamp_past),
        St::Present => push(out, s.stamp_present),
        St::Future => push(out, s.stamp_future),
        St::Fixed(t) => {
            push(out, s.stamp_fixed);
            out.push(format!("{}", t));
        }
        St::Eternal => {}
    }
    if !s.stamp_brackets.1.is_empty() {
        push(out, s.stamp_brackets.1);
    }
}

pub fn floats(lb: &str, sep: &str, rb: &str, xs: &[f64], out: &mut Toks) {
    push(out, lb);
    for (i, x) in xs.iter().enumerate() {
        if i > 0 {
            push(out, sep);
        }
        out.push(float(*x));
    }
    push(out, rb);
}

/// Token list of a whole value (term / sentence / task).
pub fn value(f: &F, v: &V) -> Toks {
    let mut out = vec![];
    let s = &f.e.sentence;
    if let (Some(_), Some(b)) = (&v.punct, &v.budget) {
        let t = &f.e.task;
        floats(t.budget_brackets.0, t.budget_separator, t.budget_brackets.1, b, &mut out);
    }
    term(f, &v.term, &mut out);
    if let Some(p) = v.punct {
        push(&mut out, punct(f, p));
        stamp(f, v.stamp, &mut out);
        if matches!(p, P::Judgement | P::Goal) && !v.truth.is_empty() {
            floats(s.truth_brackets.0, s.truth_separator, s.truth_brackets.1, &v.truth, &mut out);
        }
    }
    out
}

/// Join tokens with a given string at every boundary (and nothing at the ends).
pub fn join(toks: &[String], sep: &str) -> String {
    toks.join(sep)
}

/// Join tokens with per-boundary separators; `seps.len() == toks.len() + 1` (both ends included).
pub fn join_with(toks: &[String], seps: &[&str]) -> String {
    let mut s = String::new();
    for (i, t) in toks.iter().enumerate() {
        s.push_str(seps[i]);
        s.push_str(t);
    }
    s.push_str(seps[toks.len()]);
    s
}

pub fn strip_ws(s: &str) -> String {
    s.chars().filter(|c| !c.is_whitespace()).collect()
}
