//! E3 - owning hash-iteration order. Every `TermSetType` created while a closure runs takes its
//! SipHash key from a script (hook `narsese::verif_hooks`). The explorer is a stateless DFS over
//! those environment answers: choice point j = "key of the j-th set created"; for each choice point
//! it tries keys 0..max_keys, groups them by the *observable outcome* (the iteration-order-sensitive
//! raw form of the produced value) and branches on one key per distinct outcome.

use narsese::verif_hooks::with_seed_script;

pub struct EnvStats {
    pub builds: u64,
    pub environments: u64,
}

/// Explore every distinguishable combination of set iteration orders for `make`.
/// `sig` must map the produced value to an order-sensitive signature.
/// `visit(script, value)` is called once per distinct complete environment.
pub fn explore<T, S: Eq + std::hash::Hash + Clone>(
    make: &dyn Fn() -> T,
    sig: &dyn Fn(&T) -> S,
    max_keys: u64,
    visit: &mut dyn FnMut(&[u64], T),
) -> EnvStats {
    try_explore(make, sig, max_keys, visit).unwrap_or(EnvStats { builds: 0, environments: 0 })
}

/// like `explore`, but a panic while building (under any seed script) is returned as Err(message)
pub fn try_explore<T, S: Eq + std::hash::Hash + Clone>(
    make: &dyn Fn() -> T,
    sig: &dyn Fn(&T) -> S,
    max_keys: u64,
    visit: &mut dyn FnMut(&[u64], T),
) -> Result<EnvStats, String> {
    let r = crate::report::quiet_catch(std::panic::AssertUnwindSafe(|| explore_inner(make, sig, max_keys, visit)));
    r.map_err(|p| format!("panic while building under a seed script: {p}"))
}

fn explore_inner<T, S: Eq + std::hash::Hash + Clone>(
    make: &dyn Fn() -> T,
    sig: &dyn Fn(&T) -> S,
    max_keys: u64,
    visit: &mut dyn FnMut(&[u64], T),
) -> EnvStats {
    let (_, n_sets) = with_seed_script(&[], make);
    let mut stats = EnvStats { builds: 1, environments: 0 };
    let mut prefix: Vec<u64> = vec![];
    go(make, sig, max_keys, n_sets, &mut prefix, visit, &mut stats);
    stats
}

fn go<T, S: Eq + std::hash::Hash + Clone>(
    make: &dyn Fn() -> T,
    sig: &dyn Fn(&T) -> S,
    max_keys: u64,
    n_sets: usize,
    prefix: &mut Vec<u64>,
    visit: &mut dyn FnMut(&[u64], T),
    stats: &mut EnvStats,
) {
    if prefix.len() == n_sets {
        let (v, made) = with_seed_script(prefix, make);
        assert_eq!(made, n_sets, "the number of sets created must not depend on the keys");
        stats.builds += 1;
        stats.environments += 1;
        visit(prefix, v);
        return;
    }
    let mut seen: std::collections::HashSet<S> = std::collections::HashSet::new();
    let mut reps: Vec<u64> = vec![];
    for key in 0..max_keys {
        prefix.push(key);
        let (v, _) = with_seed_script(prefix, make);
        stats.builds += 1;
        prefix.pop();
        if seen.insert(sig(&v)) {
            reps.push(key);
        }
    }
    for key in reps {
        prefix.push(key);
        go(make, sig, max_keys, n_sets, prefix, visit, stats);
        prefix.pop();
    }
}

pub fn factorial(n: usize) -> u64 {
    (1..=n as u64).product()
}
