//! The three shipped formats, each as (enum format instance, lexical format instance, name alphabet).

use narsese::conversion::string::impl_enum::format_instances as ef;
use narsese::conversion::string::impl_enum::NarseseFormat as EnumFormat;
use narsese::conversion::string::impl_lexical::format_instances as lf;
use narsese::conversion::string::impl_lexical::NarseseFormat as LexFormat;

pub static E_ASCII: EnumFormat<&'static str> = ef::FORMAT_ASCII;
pub static E_LATEX: EnumFormat<&'static str> = ef::FORMAT_LATEX;
pub static E_HAN: EnumFormat<&'static str> = ef::FORMAT_HAN;

#[derive(Clone, Copy)]
pub struct F {
    pub name: &'static str,
    pub e: &'static EnumFormat<&'static str>,
    pub l: &'static LexFormat,
    /// well-formed atom names of this format used by the value universes
    pub names: &'static [&'static str],
    /// further well-formed names swept by the thorough tier only (underscore, non-ASCII letter,
    /// emoji, upper case with digits, doubled inner dash)
    pub extra_names: &'static [&'static str],
}

pub fn ascii() -> F {
    F { name: "ascii", e: &E_ASCII, l: &lf::FORMAT_ASCII, names: &["a", "b1", "x-y", "0", "Zz9", "k\u{e0101}", "q٣²", "p--q"], extra_names: &["x_y", "é", "😀", "A1", "p---q", "x_", "\u{1fb93}\u{f0000}", "a0123456789b0123456789c0123456789d0123456789e0123456789f0123456789"] }
}
pub fn latex() -> F {
    F { name: "latex", e: &E_LATEX, l: &lf::FORMAT_LATEX, names: &["a", "b1", "x-y", "0", "Zz9", "k\u{e0101}", "q٣²", "p--q"], extra_names: &["x_y", "é", "😀", "A1", "p---q", "x_", "\u{1fb93}\u{f0000}", "a0123456789b0123456789c0123456789d0123456789e0123456789f0123456789"] }
}
pub fn han() -> F {
    F { name: "han", e: &E_HAN, l: &lf::FORMAT_HAN, names: &["a", "b1", "x-y", "0", "Zz9", "k\u{e0101}", "q٣²", "p--q", "甲", "乙将"], extra_names: &["x_y", "é", "😀", "A1", "p---q", "x_", "\u{1fb93}\u{f0000}", "a0123456789b0123456789c0123456789d0123456789e0123456789f0123456789"] }
}
thread_local! {
    /// one enum and one lexical format instance per thread that `in_slot` overwrites in place
    static E_SLOT: std::cell::UnsafeCell<Option<Box<EnumFormat<&'static str>>>> = const { std::cell::UnsafeCell::new(None) };
    static L_SLOT: std::cell::UnsafeCell<Option<Box<LexFormat>>> = const { std::cell::UnsafeCell::new(None) };
}

/// The format `f` as instances of the caller's own that live WHERE THE PREVIOUS ONES LIVED: this thread's two
/// format slots are overwritten in place with copies of `f`'s enum format and a freshly created lexical format
/// of the same name ("`current = FORMAT_HAN; ... current = FORMAT_ASCII;`"). The returned references are valid
/// until the next call of `in_slot` on this thread (the ops that use them do not keep them).
pub fn in_slot(f: &F) -> F {
    let e: &'static EnumFormat<&'static str> = E_SLOT.with(|s| unsafe {
        let slot = &mut *s.get();
        match slot {
            Some(b) => **b = f.e.clone(),
            None => *slot = Some(Box::new(f.e.clone())),
        }
        &*(slot.as_ref().unwrap().as_ref() as *const EnumFormat<&'static str>)
    });
    let fresh = || match f.name {
        "ascii" => lf::create_format_ascii(),
        "latex" => lf::create_format_latex(),
        _ => lf::create_format_han(),
    };
    let l: &'static LexFormat = L_SLOT.with(|s| unsafe {
        let slot = &mut *s.get();
        match slot {
            Some(b) => **b = fresh(),
            None => *slot = Some(Box::new(fresh())),
        }
        &*(slot.as_ref().unwrap().as_ref() as *const LexFormat)
    });
    F { e, l, ..*f }
}

pub fn all() -> [F; 3] {
    [ascii(), latex(), han()]
}
pub fn by_name(n: &str) -> F {
    match n {
        "ascii" => ascii(),
        "latex" => latex(),
        "han" => han(),
        _ => panic!("unknown format {n}"),
    }
}

impl F {
    pub fn atom_prefixes(&self) -> [&'static str; 7] {
        let a = &self.e.atom;
        [
            a.prefix_word,
            a.prefix_placeholder,
            a.prefix_variable_independent,
            a.prefix_variable_dependent,
            a.prefix_variable_query,
            a.prefix_interval,
            a.prefix_operator,
        ]
    }
    pub fn connecters(&self) -> [&'static str; 12] {
        let c = &self.e.compound;
        [
            c.connecter_intersection_extension,
            c.connecter_intersection_intension,
            c.connecter_difference_extension,
            c.connecter_difference_intension,
            c.connecter_product,
            c.connecter_image_extension,
            c.connecter_image_intension,
            c.connecter_conjunction,
            c.connecter_disjunction,
            c.connecter_negation,
            c.connecter_conjunction_sequential,
            c.connecter_conjunction_parallel,
        ]
    }
    pub fn copulas(&self) -> [&'static str; 13] {
        self.e.copulas()
    }
    pub fn punctuations(&self) -> [&'static str; 4] {
        let s = &self.e.sentence;
        [s.punctuation_judgement, s.punctuation_goal, s.punctuation_question, s.punctuation_quest]
    }
}
