//! E5 - call-history explorer for state the library may hide *outside* the objects it hands out:
//! `thread_local!` scratch buffers, caches and memo tables, lazily initialised statics.
//!
//! An `Op` is one call of a public entry point with fixed arguments, returning a canonical
//! outcome string (Ok(canonical value) / Err / PANIC). The explorer
//!
//! 1. computes a **baseline** outcome of every op in a *fresh process* (one subprocess per op:
//!    no earlier call of any kind has happened in it - neither on the thread nor in statics);
//! 2. runs **every sequence** of `depth` ops (|ops|^depth sequences; depth 2 = every ordered
//!    pair) on a **brand-new OS thread** each, so the thread-local state at the start of a
//!    sequence is the initial one and the state before the last op is exactly "initial + the
//!    earlier ops of this sequence"; the outcome at every position must equal the op's baseline;
//! 3. finally runs every op once more on a fresh thread (process-wide statics have by then seen
//!    every op) and compares with the baseline again.
//!
//! Nothing is sampled: the space is (alphabet)^depth and it is enumerated completely. What is
//! decided: "the outcome of a call does not depend on up to depth-1 earlier calls from the
//! alphabet on the same thread, nor on anything any thread did before".

use crate::report::{quiet_catch, Run};
use rayon::prelude::*;
use serde_json::json;
use std::panic::AssertUnwindSafe;
use std::sync::atomic::{AtomicU64, Ordering};
use std::sync::{Arc, Mutex};

/// how outcomes are compared with the baseline
#[derive(Clone, Copy, PartialEq, Eq, Debug)]
pub enum Mode {
    /// the outcome is the value itself: any difference from the baseline is a dependence on history
    Strict,
    /// the outcome is the property's own verdict on the call ("ok..." / "FAIL: ..." / "PANIC: ...") or "ctx"
    /// for a context call that only prepares state: only a FAIL / PANIC that the baseline does not show counts
    Verdict,
}

/// where the baseline comes from
#[derive(Clone, Copy, PartialEq, Eq, Debug)]
pub enum Base {
    /// one fresh process per op
    FreshProcess,
    /// the first evaluation in this process, on a fresh thread, before any sequence runs (for outcomes a
    /// process may legitimately randomise, like hash values)
    InProcess,
}

#[derive(Clone)]
pub struct Op {
    pub name: String,
    pub f: Arc<dyn Fn() -> String + Send + Sync>,
    /// a context op only prepares state: sequences never *end* in one
    pub is_context: bool,
    /// position in the property's full op list (`props::history_ops`): what `--ops <k>` and replay files refer to
    pub gid: usize,
}

/// number the ops of a full alphabet
pub fn numbered(mut ops: Vec<Op>) -> Vec<Op> {
    for (i, o) in ops.iter_mut().enumerate() {
        o.gid = i;
    }
    ops
}

impl Op {
    pub fn new(name: impl Into<String>, f: impl Fn() -> String + Send + Sync + 'static) -> Op {
        Op { name: name.into(), f: Arc::new(f), is_context: false, gid: usize::MAX }
    }
    /// run the op with panics turned into an outcome
    pub fn call(&self) -> String {
        let f = self.f.clone();
        match quiet_catch(AssertUnwindSafe(move || f())) {
            Ok(s) => s,
            Err(p) => format!("PANIC: {p}"),
        }
    }
}

/// an op whose outcome is a verdict: Ok -> "ok", Err(m) -> "FAIL: m"
pub fn verdict<T>(name: impl Into<String>, f: impl Fn() -> Result<T, String> + Send + Sync + 'static) -> Op {
    Op::new(name, move || match f() {
        Ok(_) => "ok".to_string(),
        Err(m) => format!("FAIL: {m}"),
    })
}

/// a context op: the call is made for whatever it leaves behind; its own result is irrelevant
pub fn context(name: impl Into<String>, f: impl Fn() + Send + Sync + 'static) -> Op {
    let mut op = Op::new(name, move || {
        f();
        "ctx".to_string()
    });
    op.is_context = true;
    op
}

/// run `seq` (indices into `ops`) on a brand-new thread; outcomes per position
pub fn run_on_fresh_thread(ops: &[Op], seq: &[usize]) -> Vec<String> {
    let todo: Vec<Op> = seq.iter().map(|&k| ops[k].clone()).collect();
    let h = std::thread::Builder::new().stack_size(8 << 20).spawn(move || todo.iter().map(|o| o.call()).collect::<Vec<String>>());
    match h {
        Ok(h) => h.join().unwrap_or_else(|_| vec!["PANIC: the fresh thread died".to_string(); seq.len()]),
        Err(e) => vec![format!("MACHINERY: cannot spawn a thread: {e}"); seq.len()],
    }
}

/// outcome of op `k` of property `id` in a fresh process (`nvcheck <ID> --ops <k>`)
pub fn baseline_in_fresh_process(id: &str, k: usize) -> String {
    let exe = match Ok::<std::path::PathBuf, std::io::Error>(std::path::PathBuf::from("/proc/self/exe")) {
        Ok(e) => e,
        Err(e) => return format!("MACHINERY: {e}"),
    };
    match std::process::Command::new(exe).args([id, "--ops", &k.to_string()]).env("NVCHECK_CHILD", "1").output() {
        Ok(o) if o.status.success() => match serde_json::from_slice::<serde_json::Value>(&o.stdout) {
            Ok(serde_json::Value::String(s)) => s,
            _ => format!("MACHINERY: unreadable baseline output {:?}", String::from_utf8_lossy(&o.stdout)),
        },
        Ok(o) => format!("CRASH: the fresh process died ({})", o.status),
        Err(e) => format!("MACHINERY: cannot start a fresh process: {e}"),
    }
}

/// `nvcheck <ID> --ops <k>`: print the outcome of one op as a JSON string (fresh process, main thread)
pub fn serve(ops: &[Op], k: usize) -> i32 {
    match ops.get(k) {
        Some(op) => {
            println!("{}", serde_json::Value::String(op.call()));
            0
        }
        None => 2,
    }
}

pub fn case_json(id: &str, ops: &[Op], seq: &[usize], pos: usize, mode: Mode, base: Base) -> serde_json::Value {
    json!({"op": "call_history", "property": id, "mode": format!("{mode:?}"), "base": format!("{base:?}"), "sequence": seq.iter().map(|&k| ops[k].gid).collect::<Vec<_>>(), "names": seq.iter().map(|&k| ops[k].name.clone()).collect::<Vec<_>>(), "position": pos})
}

/// replay one recorded sequence: fresh thread vs fresh-process baseline, position by position
pub fn replay(id: &str, ops: &[Op], case: &serde_json::Value) -> Result<(), String> {
    let mode = if case["mode"].as_str() == Some("Verdict") { Mode::Verdict } else { Mode::Strict };
    let in_process = case["base"].as_str() == Some("InProcess");
    let seq: Vec<usize> = case["sequence"].as_array().map(|a| a.iter().filter_map(|x| x.as_u64().map(|n| n as usize)).collect()).unwrap_or_default();
    if seq.iter().any(|&k| k >= ops.len()) {
        return Err("the recorded sequence does not fit the current op alphabet".into());
    }
    // the names must still match (the alphabet may have changed since the file was written)
    if let Some(names) = case["names"].as_array() {
        for (i, &k) in seq.iter().enumerate() {
            if names.get(i).and_then(|n| n.as_str()) != Some(ops[k].name.as_str()) {
                return Err("the recorded sequence names a different op alphabet".into());
            }
        }
    }
    let wants: Vec<String> = seq.iter().map(|&k| if in_process { run_on_fresh_thread(ops, &[k]).remove(0) } else { baseline_in_fresh_process(id, k) }).collect();
    let got = run_on_fresh_thread(ops, &seq);
    for i in 0..seq.len() {
        if differs(mode, &got[i], &wants[i]) {
            return Err(describe(ops, &seq, i, &got[i], &wants[i]));
        }
    }
    if mode == Mode::Verdict && seq.len() == 1 && (wants[0].starts_with("FAIL") || wants[0].starts_with("PANIC")) {
        return Err(format!("`{}` gives {}", ops[seq[0]].name, clip(&wants[0])));
    }
    Ok(())
}

fn differs(mode: Mode, got: &str, want: &str) -> bool {
    match mode {
        Mode::Strict => got != want,
        Mode::Verdict => got != want && (got.starts_with("FAIL") || got.starts_with("PANIC")),
    }
}

fn clip(s: &str) -> String {
    if s.chars().count() > 300 {
        format!("{}...", s.chars().take(300).collect::<String>())
    } else {
        s.to_string()
    }
}

fn describe(ops: &[Op], seq: &[usize], pos: usize, got: &str, want: &str) -> String {
    let before: Vec<&str> = seq[..pos].iter().map(|&k| ops[k].name.as_str()).collect();
    if before.is_empty() {
        format!("on a fresh thread `{}` gives {} but in a fresh process it gives {} (state shared between threads or left by another thread)", ops[seq[pos]].name, clip(got), clip(want))
    } else {
        format!("after {:?} on the same thread, `{}` gives {} - with no earlier call it gives {}", before, ops[seq[pos]].name, clip(got), clip(want))
    }
}

/// Explore all sequences of length `depth` over `ops`. Violations are reported on `run`.
pub fn explore(run: &Run, id: &str, ops: &[Op], depth: usize, feats: &[String]) {
    explore_with(run, id, ops, depth, Mode::Strict, Base::FreshProcess, feats)
}

pub fn explore_with(run: &Run, id: &str, ops: &[Op], depth: usize, mode: Mode, base_from: Base, feats: &[String]) {
    let n = ops.len();
    if n == 0 {
        return;
    }
    // 1. baselines, each in its own process
    let base: Vec<String> = match base_from {
        Base::FreshProcess => (0..n).into_par_iter().map(|k| baseline_in_fresh_process(id, ops[k].gid)).collect(),
        Base::InProcess => (0..n).map(|k| run_on_fresh_thread(ops, &[k]).remove(0)).collect(),
    };
    run.eval(n as u64);
    if let Some(bad) = base.iter().position(|b| b.starts_with("MACHINERY")) {
        run.cap(&format!("call-history baselines unavailable ({}): {}", ops[bad].name, base[bad]));
        return;
    }
    // a property op whose oracle fails with NO history at all is a plain violation of the property on that input
    // (the inputs of the ops are plain well-formed ones; values with a known finding are not among them)
    if mode == Mode::Verdict {
        let mut failing = 0u64;
        for k in 0..n {
            if !ops[k].is_context && (base[k].starts_with("FAIL") || base[k].starts_with("PANIC") || base[k].starts_with("CRASH")) {
                failing += 1;
                run.violation(&format!("`{}` made as the first call of a fresh process gives {}", ops[k].name, clip(&base[k])), case_json(id, ops, &[k], 0, mode, base_from), feats);
            }
        }
        run.count(&format!("history_property_ops_failing_without_history_depth{depth}"), failing);
    }
    let reported = Mutex::new(std::collections::HashSet::<(usize, usize)>::new());
    let mismatches = AtomicU64::new(0);
    let positions = AtomicU64::new(0);
    let sequences = AtomicU64::new(0);
    let check = |seq: &[usize], got: &[String]| {
        for (i, &k) in seq.iter().enumerate() {
            positions.fetch_add(1, Ordering::Relaxed);
            if differs(mode, &got[i], &base[k]) {
                mismatches.fetch_add(1, Ordering::Relaxed);
                // one report per (previous op, op) pair - the shortest explanation
                let key = (if i == 0 { usize::MAX } else { seq[i - 1] }, k);
                if reported.lock().unwrap().insert(key) {
                    let short: Vec<usize> = seq[..=i].to_vec();
                    run.violation(&describe(ops, &short, i, &got[i], &base[k]), case_json(id, ops, &short, i, mode, base_from), feats);
                }
            }
        }
    };
    // 2. every sequence of `depth` ops that ends in a property op (any ops before it), each on a brand-new thread
    let last: Vec<usize> = (0..n).filter(|&k| !ops[k].is_context).collect();
    let total = n.pow(depth as u32 - 1) * last.len();
    (0..total).into_par_iter().for_each(|code| {
        let mut seq = Vec::with_capacity(depth);
        let mut c = code;
        seq.push(last[c % last.len()]);
        c /= last.len();
        for _ in 1..depth {
            seq.push(c % n);
            c /= n;
        }
        seq.reverse();
        let got = run_on_fresh_thread(ops, &seq);
        sequences.fetch_add(1, Ordering::Relaxed);
        check(&seq, &got);
    });
    // 3. once more, after every thread of this process has run every op
    (0..n).into_par_iter().for_each(|k| {
        let got = run_on_fresh_thread(ops, &[k]);
        sequences.fetch_add(1, Ordering::Relaxed);
        check(&[k], &got);
    });
    run.eval(positions.load(Ordering::Relaxed));
    let distinct: std::collections::HashSet<&String> = base.iter().collect();
    run.count(&format!("history_mode_{mode:?}_baseline_{base_from:?}"), 1);
    let d = depth;
    run.count(&format!("history_ops_depth{d}"), n as u64);
    run.count(&format!("history_property_ops_depth{d}"), last.len() as u64);
    run.count("history_depth_explored", depth as u64);
    run.count(&format!("history_sequences_each_on_a_new_thread_depth{d}"), sequences.load(Ordering::Relaxed));
    run.count(&format!("history_positions_compared_with_fresh_process_baseline_depth{d}"), positions.load(Ordering::Relaxed));
    run.count(&format!("history_distinct_baseline_outcomes_depth{d}"), distinct.len() as u64);
    run.count(&format!("history_mismatches_depth{d}"), mismatches.load(Ordering::Relaxed));
    run.sample(json!({"call_history_ops": ops.iter().take(6).map(|o| o.name.clone()).collect::<Vec<_>>(), "baseline_of_first": clip(&base[0])}));
}

/// Shared **context ops**: calls that are likely to leave something behind if the library keeps scratch
/// state outside its values - failing and partially successful calls of every pipeline in every format
/// (a number list that fails after its first entry, an image without placeholder, an unterminated compound,
/// an overflowing interval, a `$0.`-style sentence whose budget attempt is backed off), successful calls in
/// the *other* formats, folds of hostile lexical values, hashing / formatting / rendering of look-alike terms,
/// float-API calls on invalid neighbours of valid numbers, failing mutator calls. Each property's history
/// alphabet is its own verdict ops plus these.
pub fn context_ops() -> Vec<Op> {
    use crate::fmts;
    use crate::model::*;
    use crate::ops;
    use narsese::conversion::inter_type::lexical_fold::TryFoldInto;
    use narsese::enum_narsese::{Budget, Punctuation, Stamp, Term, Truth};
    use narsese::lexical::{Narsese as LN, Sentence as LS, Task as LT, Term as LTerm};
    let mut v = vec![];
    let wanted = [
        "truth-valid-then-malformed", "budget-valid-then-malformed", "image-no-placeholder", "unterminated-compound", "truth-out-of-range",
        "budget-only", "task", "sentence", "atom-ending-in-copula-head",
    ];
    for f in fmts::all() {
        let mut inputs: Vec<(String, String)> = crate::props::c08::history_inputs(&f).into_iter().filter(|(n, _)| wanted.contains(&n.as_str())).collect();
        let a = &f.e.atom;
        let s = &f.e.sentence;
        inputs.push(("digit-variable-sentence-with-truth".into(), format!("{}1{} {}1{}0.9{}", a.prefix_variable_independent, s.punctuation_judgement, s.truth_brackets.0, s.truth_separator, s.truth_brackets.1)));
        inputs.push(("interval-overflow".into(), format!("{}99999999999999999999999", a.prefix_interval)));
        for (n, x) in inputs {
            let (f1, x1) = (f, x.clone());
            v.push(context(format!("ctx enum-parse[{}] {n}: {x:?}", f.name), move || {
                let _ = ops::parse_enum(&f1, &x1);
            }));
            let (f2, x2) = (f, x.clone());
            v.push(context(format!("ctx lexical-parse+fold[{}] {n}: {x:?}", f.name), move || {
                let _ = ops::lex_then_fold(&f2, &x2);
            }));
            if n == "truth-valid-then-malformed" || n == "budget-only" || n == "sentence" {
                let (f3, x3) = (f, x.clone());
                v.push(context(format!("ctx stand-alone item parsers[{}] {n}", f.name), move || {
                    let _ = quiet_catch(AssertUnwindSafe(|| {
                        let _ = (f3.e.parse::<Truth>(&x3).is_ok(), f3.e.parse::<Budget>(&x3).is_ok(), f3.e.parse::<Stamp>(&x3).is_ok(), f3.e.parse::<Punctuation>(&x3).is_ok());
                    }));
                }));
            }
        }
        // folds of hand-built hostile lexical values
        let atom = |p: &str, n: &str| LTerm::Atom { prefix: p.to_string(), name: n.to_string() };
        let c = &f.e.compound;
        let img_no_ph = LTerm::Compound { connecter: c.connecter_image_extension.to_string(), terms: vec![atom("", "a"), atom("", "b")] };
        let img_int_no_ph = LTerm::Compound { connecter: c.connecter_image_intension.to_string(), terms: vec![atom("", "a"), atom("", "b")] };
        let unknown = LTerm::Compound { connecter: "??".to_string(), terms: vec![atom("", "a")] };
        let sent = |t: LTerm, truth: Vec<&str>| LN::Sentence(LS { term: t, punctuation: s.punctuation_judgement.to_string(), stamp: String::new(), truth: truth.into_iter().map(String::from).collect() });
        let hostile: Vec<(&str, LN)> = vec![
            ("image without placeholder", LN::Term(img_no_ph)),
            ("intensional image without placeholder", LN::Term(img_int_no_ph)),
            ("unknown connecter", LN::Term(unknown)),
            ("truth 0.5 then abc", sent(atom("", "a"), vec!["0.5", "abc"])),
            ("truth 0.5 then 7", sent(atom("", "a"), vec!["0.5", "7"])),
            ("budget 0.25 then 0..5", LN::Task(LT { budget: vec!["0.25".into(), "0..5".into()], sentence: LS { term: atom("", "a"), punctuation: s.punctuation_judgement.to_string(), stamp: String::new(), truth: vec![] } })),
            ("interval with a non-number", LN::Term(atom(a.prefix_interval, "abc"))),
        ];
        for (n, x) in hostile {
            let f4 = f;
            v.push(context(format!("ctx fold[{}] {n}", f.name), move || {
                let x = x.clone();
                let _ = quiet_catch(AssertUnwindSafe(move || x.try_fold_into(f4.e).is_ok()));
            }));
        }
    }
    // look-alike terms: hashing, equality, formatting, rendering
    let twins: Vec<(&str, R)> = vec![
        ("{5}", R::node(Tag::SetExt, vec![R::word("5")])),
        ("{+5}", R::node(Tag::SetExt, vec![R::interval(5)])),
        ("(&|, +5, arrive)", R::node(Tag::ParConj, vec![R::interval(5), R::word("arrive")])),
        ("(&|, 5, arrive)", R::node(Tag::ParConj, vec![R::word("5"), R::word("arrive")])),
        ("<+5 <-> 5>", R::pair(Tag::Sim, R::interval(5), R::word("5"))),
        ("(*,(*,a,b),c)", R::node(Tag::Product, vec![R::node(Tag::Product, vec![R::word("a"), R::word("b")]), R::word("c")])),
        ("(*,a,(*,b,c))", R::node(Tag::Product, vec![R::word("a"), R::node(Tag::Product, vec![R::word("b"), R::word("c")])])),
        ("{{a,b},$a}", R::node(Tag::SetExt, vec![R::node(Tag::SetExt, vec![R::word("a"), R::word("b")]), R::atom(Tag::IVar, "a")])),
    ];
    for (n, r) in twins {
        let r1 = r.clone();
        v.push(context(format!("ctx hash + eq of {n}"), move || {
            use std::hash::{Hash, Hasher};
            let _ = quiet_catch(AssertUnwindSafe(|| {
                let t = r1.build();
                let mut h = std::collections::hash_map::DefaultHasher::new();
                t.hash(&mut h);
                let _ = (h.finish(), t == t.clone());
            }));
        }));
        let r2 = r.clone();
        v.push(context(format!("ctx format + render of {n}"), move || {
            let _ = quiet_catch(AssertUnwindSafe(|| {
                let n = narsese::enum_narsese::Narsese::Term(r2.build());
                for g in fmts::all() {
                    let _ = g.e.format_narsese(&n);
                }
                let _ = ops::typst(&n);
            }));
        }));
    }
    // float API on invalid neighbours of valid numbers
    for (x, n) in [(-1e-300f64, 0usize), (-1e-300, 1), (-1e-300, 2), (-1e-300, 3), (-1e-300, 4), (-1e-300, 64), (-5e-324, 1), (-5e-324, 2), (1.0000000000000002, 1), (1.0000000000000002, 2), (f64::NAN, 2), (2.0, 1), (1.5, 2)] {
        v.push(context(format!("ctx root / validity of {x:?} ({n})"), move || {
            use narsese::api::EvidentNumber;
            let _ = quiet_catch(AssertUnwindSafe(|| {
                let _ = (x.is_valid(), x.try_validate().is_ok(), x.root(n));
            }));
        }));
    }
    // many distinct names in a row (a small fixed-size cache or interner recycles its slots only after a while)
    v.push(context("ctx 40 distinct names formatted, parsed, rendered and hashed", || {
        use std::hash::{Hash, Hasher};
        let _ = quiet_catch(AssertUnwindSafe(|| {
            let f = fmts::ascii();
            for i in 0..40 {
                let t = R::node(Tag::Product, vec![R::word(&format!("w{i}")), R::atom(Tag::IVar, &format!("v{i}")), R::atom(Tag::Operator, &format!("o{i}"))]).build();
                let n = narsese::enum_narsese::Narsese::Term(t.clone());
                let s = f.e.format_narsese(&n);
                let _ = (ops::parse_enum(&f, &s).is_ok(), ops::lex_then_fold(&f, &s).is_ok(), ops::typst(&n).is_ok());
                let mut h = std::collections::hash_map::DefaultHasher::new();
                t.hash(&mut h);
                let _ = h.finish();
            }
        }));
    }));
    v.push(context("ctx failing truth / budget constructors", || {
        let _ = quiet_catch(AssertUnwindSafe(|| {
            let _ = Truth::try_from_floats([0.5, f64::NAN].into_iter());
            let _ = Budget::try_from_floats([0.5, 0.5, 1.5, 0.5].into_iter());
            let _ = Truth::try_from_floats([0.5, 0.5, 7.0].into_iter());
        }));
        let _ = quiet_catch(AssertUnwindSafe(|| Truth::new_double(0.5, 2.0)));
    }));
    v.push(context("ctx failing mutators", || {
        let _ = quiet_catch(AssertUnwindSafe(|| {
            let mut i = Term::new_interval(42);
            let _ = i.set_atom_name("abc");
            let _ = i.set_atom_name("99999999999999999999999");
            let mut st = R::pair(Tag::Inh, R::word("a"), R::word("b")).build();
            let _ = st.push_components(vec![Term::new_word("c")]);
            let _ = st.set_atom_name("x");
        }));
    }));
    v
}
