//! Hostile lexical values: every field filled from an alphabet of strings that includes every
//! keyword of every category of every format (so: a copula where a connecter is expected, ASCII
//! brackets with the Han folder, ...), the empty string and garbage. Used by C05 and C12 (fold).

use crate::fmts;
use crate::lexu::atom;
use crate::strings;
use narsese::lexical::{Narsese as LN, Sentence as LS, Task as LT, Term as LTerm};

/// all keywords of all formats + "" + garbage
pub fn strings_all() -> Vec<String> {
    let mut v: Vec<String> = vec!["".into(), "???".into()];
    for f in fmts::all() {
        for k in strings::keywords(&f) {
            if !v.contains(&k) {
                v.push(k);
            }
        }
    }
    // a keyword immediately followed by a name (an OpenNARS-style "^op" used as a connecter, a
    // connecter or copula with trailing text): not a keyword of any category
    for f in fmts::all() {
        let mut ks: Vec<&str> = vec![];
        ks.extend(f.atom_prefixes());
        ks.extend(f.connecters());
        ks.extend(f.copulas());
        for k in ks {
            let s = format!("{k}op");
            if !k.is_empty() && !v.contains(&s) {
                v.push(s);
            }
        }
    }
    v.extend(long_garbage());
    v
}

/// unknown keywords of many lengths made of 1-, 2-, 3- and 4-byte characters, with and without a
/// one-byte lead, so that any fixed byte or char offset (8, 16, 24, 32, 64, 100 ...) falls both on
/// and inside a character for some member
pub fn long_garbage() -> Vec<String> {
    let mut v = vec![];
    for unit in ["z", "é", "甲", "😀"] {
        for lead in ["", "x"] {
            for k in [1usize, 2, 3, 4, 5, 6, 7, 8, 9, 10, 11, 12, 13, 16, 17, 21, 22, 25, 26, 32, 33, 34, 43, 44, 64, 65, 100, 101] {
                if unit == "z" && ![8, 9, 16, 17, 32, 33, 64, 65, 100, 101].contains(&k) {
                    continue;
                }
                v.push(format!("{lead}{}", unit.repeat(k)));
            }
        }
    }
    v
}

pub const NAMES: [&str; 11] = ["", "a", "7", "-1", "+5", "18446744073709551616", "x y", "0007", " ", "\t\u{3000}", " a "];

pub fn number_strings() -> Vec<&'static str> {
    vec!["0.5", "1", "2", "-1", "NaN", "inf", "1e400", "+0.5", " 0.5", "0x10", "abc", "", "-0", "1e-400"]
}

pub fn stamp_strings() -> Vec<String> {
    let mut v: Vec<String> = ["", ":", "::", ":|:", ":!5:", ":!:", ":!99999999999999999999:", ":!-9223372036854775808:", ":!-9223372036854775809:", "t=", "t=5", "t=+-5", "发生在", "发生在5", "x|:", ":|", "|:", ":! 5:", ": | :", ":!5", ":!+5:", "过去", "将来x"]
        .iter()
        .map(|s| s.to_string())
        .collect();
    for f in fmts::all() {
        v.extend(crate::lexu::stamps(&f));
    }
    v.sort();
    v.dedup();
    v
}

fn lists<T: Clone>(items: &[T], max: usize) -> Vec<Vec<T>> {
    let mut out = vec![vec![]];
    let mut cur: Vec<Vec<T>> = vec![vec![]];
    for _ in 0..max {
        let mut next = vec![];
        for s in &cur {
            for it in items {
                let mut t = s.clone();
                t.push(it.clone());
                next.push(t);
            }
        }
        out.extend(next.iter().cloned());
        cur = next;
    }
    out
}

/// hostile terms (depth <= 2)
pub fn terms(thorough: bool) -> Vec<LTerm> {
    let h = strings_all();
    let mut out = vec![];
    // atoms: every string as prefix x names
    for p in &h {
        for n in NAMES {
            out.push(atom(p, n));
        }
    }
    // component pool: a word, each format's placeholder, an interval-like, a bad atom
    let mut pool = vec![atom("", "a"), atom("+", "7"), atom("???", "x")];
    for f in fmts::all() {
        pool.push(atom(f.e.atom.prefix_placeholder, ""));
    }
    pool.dedup();
    let comp_lists = lists(&pool, if thorough { 4 } else { 3 });
    for c in &h {
        for l in &comp_lists {
            out.push(LTerm::Compound { connecter: c.clone(), terms: l.clone() });
        }
    }
    // sets: bracket-like strings in every pairing
    let mut br: Vec<String> = vec!["".into(), "???".into()];
    for f in fmts::all() {
        let c = &f.e.compound;
        for b in [c.brackets_set_extension.0, c.brackets_set_extension.1, c.brackets_set_intension.0, c.brackets_set_intension.1, c.brackets.0, c.brackets.1, f.e.statement.brackets.0] {
            if !br.iter().any(|x| x == b) {
                br.push(b.to_string());
            }
        }
    }
    let small_lists = lists(&pool[..3], 2);
    for l in &br {
        for r in &br {
            for ts in &small_lists {
                out.push(LTerm::Set { left_bracket: l.clone(), terms: ts.clone(), right_bracket: r.clone() });
            }
        }
    }
    // statements
    for c in &h {
        for a in &pool {
            for b in &pool {
                out.push(LTerm::Statement { copula: c.clone(), subject: Box::new(a.clone()), predicate: Box::new(b.clone()) });
            }
        }
    }
    // one level of nesting: a failing / odd child inside every keyword-compound of every format
    let odd = vec![
        atom("???", ""),
        LTerm::Compound { connecter: "???".into(), terms: vec![] },
        LTerm::Compound { connecter: "/".into(), terms: vec![atom("", "a")] },
        LTerm::Compound { connecter: "--".into(), terms: vec![] },
        LTerm::Set { left_bracket: "{".into(), terms: vec![], right_bracket: "}".into() },
    ];
    for c in &h {
        for o in &odd {
            out.push(LTerm::Compound { connecter: c.clone(), terms: vec![atom("", "a"), o.clone()] });
            out.push(LTerm::Statement { copula: c.clone(), subject: Box::new(o.clone()), predicate: Box::new(atom("", "a")) });
        }
    }
    out
}

/// hostile sentences / tasks around a few terms
pub fn sentences() -> Vec<LN> {
    let mut out = vec![];
    let nums = number_strings();
    let terms = [atom("", "a"), atom("#", ""), LTerm::Compound { connecter: "???".into(), terms: vec![] }];
    let mut puncts: Vec<String> = vec!["".into(), "???".into(), "..".into(), ". ".into()];
    for f in fmts::all() {
        for p in f.punctuations() {
            if !puncts.iter().any(|x| x == p) {
                puncts.push(p.to_string());
            }
        }
    }
    let mut stamps = stamp_strings();
    // long unknown strings (and long digit runs) in the punctuation, stamp and number slots
    let garbage = long_garbage();
    for g in garbage.iter().step_by(3) {
        puncts.push(g.clone());
        stamps.push(g.clone());
        stamps.push(format!(":!{g}:"));
        out.push(LN::Sentence(LS { term: terms[0].clone(), punctuation: ".".into(), stamp: "".into(), truth: vec![g.clone()] }));
        out.push(LN::Task(LT { budget: vec!["0.5".into(), g.clone()], sentence: LS { term: terms[0].clone(), punctuation: ".".into(), stamp: "".into(), truth: vec!["1".into(), g.clone()] } }));
    }
    for d in crate::lexu::digit_strings() {
        for sign in ["", "+", "-"] {
            stamps.push(format!(":!{sign}{d}:"));
            stamps.push(format!("t={sign}{d}"));
            stamps.push(format!("发生在{sign}{d}"));
        }
    }
    let num_lists = lists(&nums, 2);
    let to_s = |l: &Vec<&str>| l.iter().map(|s| s.to_string()).collect::<Vec<String>>();
    // full product of punctuation x stamp with short number lists
    for t in &terms[..1] {
        for p in &puncts {
            for st in &stamps {
                for tr in [vec![], vec!["1"], vec!["0.5", "0.9"], vec!["2"], vec!["abc"]] {
                    out.push(LN::Sentence(LS { term: t.clone(), punctuation: p.clone(), stamp: st.clone(), truth: to_s(&tr) }));
                }
            }
        }
    }
    // every number list of length 0..4 as truth and as budget
    let all_lists = lists(&nums, 4);
    for l in &all_lists {
        out.push(LN::Sentence(LS { term: terms[0].clone(), punctuation: ".".into(), stamp: "".into(), truth: to_s(l) }));
        out.push(LN::Task(LT { budget: to_s(l), sentence: LS { term: terms[0].clone(), punctuation: ".".into(), stamp: "".into(), truth: vec![] } }));
    }
    for t in &terms {
        for l in &num_lists {
            for b in &num_lists {
                out.push(LN::Task(LT { budget: to_s(b), sentence: LS { term: t.clone(), punctuation: "!".into(), stamp: ":|:".into(), truth: to_s(l) } }));
            }
        }
    }
    out
}
