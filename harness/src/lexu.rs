//! Bounded-exhaustive universes of *lexical* values whose strings come from a shipped lexical
//! format's own vocabulary (C02, C11, C14, C15).

use crate::fmts::F;
use narsese::lexical::{Narsese as LN, Sentence as LS, Task as LT, Term as LTerm};

pub fn atom(prefix: &str, name: &str) -> LTerm {
    LTerm::Atom { prefix: prefix.to_string(), name: name.to_string() }
}

/// all atoms: 6 named prefixes (incl. the empty word prefix) x names, the placeholder with an
/// empty name and with a name
pub fn atoms(f: &F) -> Vec<LTerm> {
    let mut v = vec![];
    let ph = f.e.atom.prefix_placeholder;
    for p in f.atom_prefixes() {
        if p == ph {
            continue;
        }
        for n in f.names {
            v.push(atom(p, n));
        }
    }
    v.push(atom(ph, ""));
    v
}

/// small pool used as components
pub fn pool(f: &F) -> Vec<LTerm> {
    let a = &f.e.atom;
    vec![
        atom("", "a"),
        atom("", "x-y"),
        atom(a.prefix_variable_independent, "b1"),
        atom(a.prefix_interval, "7"),
        atom(a.prefix_placeholder, ""),
    ]
}

fn sequences(items: &[LTerm], lo: usize, hi: usize) -> Vec<Vec<LTerm>> {
    let mut out = vec![];
    let mut cur: Vec<Vec<LTerm>> = vec![vec![]];
    for len in 0..=hi {
        if len >= lo {
            out.extend(cur.iter().cloned());
        }
        if len == hi {
            break;
        }
        let mut next = vec![];
        for s in &cur {
            for it in items {
                let mut t = s.clone();
                t.push(it.clone());
                next.push(t);
            }
        }
        cur = next;
    }
    out
}

/// every lexical constructor over `items`: 12 connecters x lists of length lo..=w (ANY connecter /
/// arity combination), 2 set bracket pairs x lists, 13 copulas x pairs
pub fn apply_all(f: &F, items: &[LTerm], lo: usize, w: usize, out: &mut Vec<LTerm>) {
    let seqs = sequences(items, lo, w);
    for c in f.connecters() {
        for s in &seqs {
            out.push(LTerm::Compound { connecter: c.to_string(), terms: s.clone() });
        }
    }
    let cb = &f.e.compound;
    for (l, r) in [cb.brackets_set_extension, cb.brackets_set_intension] {
        for s in &seqs {
            out.push(LTerm::Set { left_bracket: l.to_string(), terms: s.clone(), right_bracket: r.to_string() });
        }
    }
    for c in f.copulas() {
        for a in items {
            for b in items {
                out.push(LTerm::Statement { copula: c.to_string(), subject: Box::new(a.clone()), predicate: Box::new(b.clone()) });
            }
        }
    }
}

/// one representative per lexical constructor keyword (12 + 2 + 13)
pub fn reps(f: &F) -> Vec<LTerm> {
    let a = atom("", "a");
    let b = atom(f.e.atom.prefix_variable_dependent, "b1");
    let mut v = vec![];
    for c in f.connecters() {
        v.push(LTerm::Compound { connecter: c.to_string(), terms: vec![a.clone(), b.clone()] });
    }
    let cb = &f.e.compound;
    for (l, r) in [cb.brackets_set_extension, cb.brackets_set_intension] {
        v.push(LTerm::Set { left_bracket: l.to_string(), terms: vec![a.clone(), b.clone()], right_bracket: r.to_string() });
    }
    for c in f.copulas() {
        v.push(LTerm::Statement { copula: c.to_string(), subject: Box::new(a.clone()), predicate: Box::new(b.clone()) });
    }
    v
}

/// `min_components`: 0 includes empty compounds/sets (KF-4), 1 excludes them
pub fn u_term(f: &F, min_components: usize, thorough: bool) -> Vec<LTerm> {
    let mut out = atoms(f);
    apply_all(f, &pool(f), min_components, 3, &mut out);
    let mut items = reps(f);
    items.push(atom("", "b1"));
    items.push(atom(f.e.atom.prefix_operator, "a"));
    apply_all(f, &items, 1, if thorough { 3 } else { 2 }, &mut out);
    // nested variety: a multi-component compound / set of every kind inside every kind, contents
    // ranging over all pairs and triples of the pool
    {
        let pool = pool(f);
        let mut contents: Vec<Vec<LTerm>> = vec![];
        for i in 0..pool.len() {
            for j in (i + 1)..pool.len() {
                contents.push(vec![pool[i].clone(), pool[j].clone()]);
                for k in (j + 1)..pool.len() {
                    contents.push(vec![pool[i].clone(), pool[j].clone(), pool[k].clone()]);
                }
            }
        }
        let cb = &f.e.compound;
        let mk = |kind: usize, terms: Vec<LTerm>| -> LTerm {
            let conns = f.connecters();
            if kind < conns.len() {
                LTerm::Compound { connecter: conns[kind].to_string(), terms }
            } else if kind == conns.len() {
                LTerm::Set { left_bracket: cb.brackets_set_extension.0.to_string(), terms, right_bracket: cb.brackets_set_extension.1.to_string() }
            } else {
                LTerm::Set { left_bracket: cb.brackets_set_intension.0.to_string(), terms, right_bracket: cb.brackets_set_intension.1.to_string() }
            }
        };
        let kinds = f.connecters().len() + 2;
        for (n, c) in contents.iter().enumerate() {
            for inner in 0..kinds {
                let outer = (n + inner) % kinds;
                out.push(mk(outer, vec![mk(inner, c.clone()), pool[n % pool.len()].clone()]));
            }
        }
    }
    // wide: 9 and 17 components
    for n in [4usize, 5, 6, 7, 8, 9, 16, 17, 33] {
        let elems: Vec<LTerm> = (0..n).map(|i| atom(if i % 4 == 3 { f.e.atom.prefix_variable_query } else { "" }, &format!("w{i}"))).collect();
        for c in f.connecters() {
            out.push(LTerm::Compound { connecter: c.to_string(), terms: elems.clone() });
        }
        let cb = &f.e.compound;
        for (l, r) in [cb.brackets_set_extension, cb.brackets_set_intension] {
            out.push(LTerm::Set { left_bracket: l.to_string(), terms: elems.clone(), right_bracket: r.to_string() });
        }
    }
    out.extend(reducible(f));
    out.extend(chains3(f));
    out.extend(big_and_related(f));
    // deep: chains of every constructor, the nested component in every position
    for d in if thorough { vec![2usize, 3, 4, 5, 6, 7, 8, 15, 16, 17, 31, 32, 33, 64] } else { vec![2usize, 3, 8, 16, 17, 33, 64] } {
        out.extend(towers(f, d));
    }
    out
}

/// The size dimension and related siblings on the lexical side: 257 components in every connecter and set, a product of
/// 600 one-element sets, a conjunction of 260 statements, three towers of depth 20 / 45 side by side, fat towers (five
/// components on each of 16 / 40 levels), siblings whose names extend one another.
pub fn big_and_related(f: &F) -> Vec<LTerm> {
    let cb = &f.e.compound;
    let set = |terms: Vec<LTerm>| LTerm::Set { left_bracket: cb.brackets_set_extension.0.to_string(), terms, right_bracket: cb.brackets_set_extension.1.to_string() };
    let comp = |c: &str, terms: Vec<LTerm>| LTerm::Compound { connecter: c.to_string(), terms };
    let stmt = |s: LTerm, p: LTerm| LTerm::Statement { copula: f.e.statement.copula_inheritance.to_string(), subject: Box::new(s), predicate: Box::new(p) };
    let mut out = vec![];
    let wide: Vec<LTerm> = (0..257).map(|i| atom("", &format!("w{i}"))).collect();
    for c in f.connecters() {
        out.push(comp(c, wide.clone()));
    }
    out.push(set(wide.clone()));
    out.push(comp(cb.connecter_product, (0..600).map(|i| set(vec![atom("", &format!("s{i}"))])).collect()));
    out.push(comp(cb.connecter_conjunction, (0..260).map(|i| stmt(atom("", &format!("a{i}")), atom("", &format!("b{i}")))).collect()));
    for d in [20usize, 45] {
        let tower = |leaf: &str| {
            let mut t = atom("", leaf);
            for _ in 0..d {
                t = set(vec![t]);
            }
            t
        };
        out.push(comp(cb.connecter_product, vec![tower("a"), tower("b"), tower("c")]));
        out.push(set(vec![tower("a"), tower("b"), tower("c")]));
    }
    for d in [16usize, 40] {
        for last in [false, true] {
            let mut t = atom("", "a");
            for _ in 0..d {
                let mut kids = vec![atom("", "b"), atom("", "c"), atom(f.e.atom.prefix_variable_independent, "d"), atom("", "e")];
                if last {
                    kids.push(t);
                } else {
                    kids.insert(0, t);
                }
                t = comp(cb.connecter_product, kids);
            }
            out.push(t);
        }
    }
    for base in ["abc", "temperatureSens1", "temperatureSensor01", "aVeryLongNameThatGoesOnForFortyCharacter"] {
        let (x, y) = (atom("", base), atom("", &format!("{base}2")));
        for (p, q) in [(&x, &y), (&y, &x)] {
            out.push(comp(cb.connecter_product, vec![p.clone(), q.clone()]));
            out.push(comp(cb.connecter_conjunction, vec![p.clone(), q.clone(), atom("", "z")]));
            out.push(set(vec![p.clone(), q.clone()]));
            out.push(stmt(p.clone(), q.clone()));
        }
        let op = f.e.atom.prefix_operator;
        out.push(comp(cb.connecter_product, vec![atom(op, base), atom(op, &format!("{base}2"))]));
    }
    out
}

/// Chains: every ordered triple of lexical constructors (12 connecters, 2 set bracket pairs, 13
/// copulas: 27^3 triples) nested in one another, the nested child last at every level, and - in a
/// second copy - first (`reps` holds one value per constructor, `apply_all(reps)` every pair).
pub fn chains3(f: &F) -> Vec<LTerm> {
    let a = atom("", "a");
    let b = atom(f.e.atom.prefix_variable_independent, "b1");
    let o = atom(f.e.atom.prefix_variable_dependent, "c");
    let cb = &f.e.compound;
    let conns = f.connecters();
    let cops = f.copulas();
    let sets = [cb.brackets_set_extension, cb.brackets_set_intension];
    let n = conns.len() + sets.len() + cops.len();
    let mk = |kind: usize, x: LTerm, y: LTerm| -> LTerm {
        if kind < conns.len() {
            LTerm::Compound { connecter: conns[kind].to_string(), terms: vec![x, y] }
        } else if kind < conns.len() + sets.len() {
            let (l, r) = sets[kind - conns.len()];
            LTerm::Set { left_bracket: l.to_string(), terms: vec![x, y], right_bracket: r.to_string() }
        } else {
            LTerm::Statement { copula: cops[kind - conns.len() - sets.len()].to_string(), subject: Box::new(x), predicate: Box::new(y) }
        }
    };
    let mut out = Vec::with_capacity(n * n * n * 2);
    for k1 in 0..n {
        for k2 in 0..n {
            for k3 in 0..n {
                let inner = mk(k3, a.clone(), b.clone());
                out.push(mk(k1, o.clone(), mk(k2, o.clone(), inner.clone())));
                out.push(mk(k1, mk(k2, inner, o.clone()), o.clone()));
            }
        }
    }
    out
}

/// chains nested `d` deep: every connecter / set bracket pair with the nested component alone,
/// after a sibling and before a sibling; every copula with it as subject and as predicate
pub fn towers(f: &F, d: usize) -> Vec<LTerm> {
    let leaf = atom("", "a");
    let other = atom(f.e.atom.prefix_variable_dependent, "b1");
    let cb = &f.e.compound;
    let mut makers: Vec<Box<dyn Fn(LTerm) -> LTerm>> = vec![];
    for c in f.connecters() {
        for pos in 0..3 {
            let o = other.clone();
            makers.push(Box::new(move |x| LTerm::Compound {
                connecter: c.to_string(),
                terms: match pos {
                    0 => vec![x],
                    1 => vec![o.clone(), x],
                    _ => vec![x, o.clone()],
                },
            }));
        }
    }
    for (l, r) in [cb.brackets_set_extension, cb.brackets_set_intension] {
        for pos in 0..3 {
            let o = other.clone();
            makers.push(Box::new(move |x| LTerm::Set {
                left_bracket: l.to_string(),
                terms: match pos {
                    0 => vec![x],
                    1 => vec![o.clone(), x],
                    _ => vec![x, o.clone()],
                },
                right_bracket: r.to_string(),
            }));
        }
    }
    for c in f.copulas() {
        let (o1, o2) = (other.clone(), other.clone());
        makers.push(Box::new(move |x| LTerm::Statement { copula: c.to_string(), subject: Box::new(x), predicate: Box::new(o1.clone()) }));
        makers.push(Box::new(move |x| LTerm::Statement { copula: c.to_string(), subject: Box::new(o2.clone()), predicate: Box::new(x) }));
    }
    let mut out = vec![];
    for mk in &makers {
        let mut t = leaf.clone();
        for _ in 0..d {
            t = mk(t);
        }
        if d >= 16 {
            // the tower inside a container whose enum counterpart hashes its members (a set, a conjunction),
            // and as an operand of a symmetric statement
            out.push(LTerm::Set { left_bracket: cb.brackets_set_extension.0.to_string(), terms: vec![t.clone(), other.clone()], right_bracket: cb.brackets_set_extension.1.to_string() });
            out.push(LTerm::Compound { connecter: cb.connecter_conjunction.to_string(), terms: vec![other.clone(), t.clone()] });
            out.push(LTerm::Statement { copula: f.e.statement.copula_similarity.to_string(), subject: Box::new(t.clone()), predicate: Box::new(other.clone()) });
        }
        out.push(t);
    }
    // mixed tower cycling through all makers
    let mut t = leaf.clone();
    for i in 0..d {
        t = makers[(i * 7) % makers.len()](t);
    }
    out.push(t);
    out
}

/// lexical counterpart of `universe::reducible`: every constructor over (inner, sibling) where
/// inner is every constructor over (a, $b1), in both positions, with 1..3 components, images with
/// the placeholder in every position
pub fn reducible(f: &F) -> Vec<LTerm> {
    let a = atom("", "a");
    let b = atom(f.e.atom.prefix_variable_independent, "b1");
    let ph = atom(f.e.atom.prefix_placeholder, "");
    let cb = &f.e.compound;
    let img = [cb.connecter_image_extension, cb.connecter_image_intension];
    // kinds: connecters, the two sets, copulas
    let conns = f.connecters();
    let cops = f.copulas();
    let nk = conns.len() + 2 + cops.len();
    let mk = |kind: usize, terms: Vec<LTerm>| -> Option<LTerm> {
        if kind < conns.len() {
            Some(LTerm::Compound { connecter: conns[kind].to_string(), terms })
        } else if kind == conns.len() {
            Some(LTerm::Set { left_bracket: cb.brackets_set_extension.0.to_string(), terms, right_bracket: cb.brackets_set_extension.1.to_string() })
        } else if kind == conns.len() + 1 {
            Some(LTerm::Set { left_bracket: cb.brackets_set_intension.0.to_string(), terms, right_bracket: cb.brackets_set_intension.1.to_string() })
        } else if terms.len() == 2 {
            let mut it = terms.into_iter();
            Some(LTerm::Statement { copula: cops[kind - conns.len() - 2].to_string(), subject: Box::new(it.next().unwrap()), predicate: Box::new(it.next().unwrap()) })
        } else {
            None
        }
    };
    let is_image = |kind: usize| kind < conns.len() && img.contains(&conns[kind]);
    let mut out = vec![];
    for t in 0..nk {
        for u in 0..nk {
            let inners: Vec<LTerm> = if is_image(u) {
                vec![mk(u, vec![a.clone(), ph.clone(), b.clone()]).unwrap(), mk(u, vec![ph.clone(), a.clone(), b.clone()]).unwrap()]
            } else {
                vec![mk(u, vec![a.clone(), b.clone()]).unwrap()]
            };
            for inner in inners {
                let mut lists: Vec<Vec<LTerm>> = vec![
                    vec![inner.clone(), a.clone()],
                    vec![inner.clone(), b.clone()],
                    vec![a.clone(), inner.clone()],
                    vec![b.clone(), inner.clone()],
                    vec![inner.clone()],
                    vec![inner.clone(), a.clone(), b.clone()],
                    vec![inner.clone(), inner.clone()],
                ];
                if is_image(t) {
                    // the placeholder in every position of (inner, a) / (inner, b) / (inner, a, b)
                    let mut with_ph = vec![];
                    for l in &lists {
                        for i in 0..=l.len() {
                            let mut v = l.clone();
                            v.insert(i, ph.clone());
                            with_ph.push(v);
                        }
                    }
                    lists = with_ph;
                }
                for l in lists {
                    if let Some(x) = mk(t, l) {
                        out.push(x);
                    }
                }
            }
        }
        if let Some(x) = mk(t, vec![a.clone(), a.clone()]) {
            out.push(x);
        }
    }
    // double / triple negation
    let neg = |x: LTerm| LTerm::Compound { connecter: cb.connecter_negation.to_string(), terms: vec![x] };
    out.push(neg(neg(a.clone())));
    out.push(neg(neg(neg(a.clone()))));
    out
}

/// digit strings with every length 1..=25 (signed and unsigned integers; fractions)
pub fn digit_strings() -> Vec<String> {
    let mut v = vec![];
    let mut s = String::new();
    for k in 1..=25usize {
        s.push(char::from(b'0' + (k % 10) as u8));
        v.push(s.clone());
    }
    v.extend(["9223372036854775807", "9223372036854775808", "18446744073709551615", "18446744073709551616", "9007199254740993", "99999", "9", "90", "19"].map(String::from));
    // far longer than any machine number (the lexical model keeps numbers as text: a 70-digit fixed stamp is a stamp)
    for k in [40usize, 62, 63, 64, 65, 70, 130] {
        v.push("1234567890".repeat(13)[..k].to_string());
    }
    v
}

/// sentences / tasks / intervals whose numeric strings range over `digit_strings`
pub fn numeric_family(f: &F) -> Vec<LN> {
    let s = &f.e.sentence;
    let (l, r) = s.stamp_brackets;
    let p = s.punctuation_judgement.to_string();
    let a = atom("", "a");
    let mut out = vec![];
    for d in digit_strings() {
        for sign in ["", "+", "-"] {
            let st = format!("{l}{}{sign}{d}{r}", s.stamp_fixed);
            out.push(LN::Sentence(LS { term: a.clone(), punctuation: p.clone(), stamp: st.clone(), truth: vec![] }));
            out.push(LN::Task(LT { budget: vec!["0.5".into()], sentence: LS { term: a.clone(), punctuation: p.clone(), stamp: st, truth: vec!["1".into(), "0.9".into()] } }));
        }
        let iv = atom(f.e.atom.prefix_interval, &d);
        out.push(LN::Term(iv.clone()));
        out.push(LN::Term(LTerm::Compound { connecter: f.e.compound.connecter_conjunction_sequential.to_string(), terms: vec![a.clone(), iv.clone(), a.clone()] }));
        out.push(LN::Sentence(LS { term: iv, punctuation: p.clone(), stamp: String::new(), truth: vec![] }));
        for num in [format!("0.{d}"), format!(".{d}"), format!("{d}"), format!("{d}.{d}"), format!("1.{}", "0".repeat(d.len()))] {
            out.push(LN::Sentence(LS { term: a.clone(), punctuation: p.clone(), stamp: String::new(), truth: vec![num.clone()] }));
            out.push(LN::Sentence(LS { term: a.clone(), punctuation: p.clone(), stamp: String::new(), truth: vec!["0.5".into(), num.clone()] }));
            out.push(LN::Task(LT { budget: vec![num.clone()], sentence: LS { term: a.clone(), punctuation: p.clone(), stamp: String::new(), truth: vec![] } }));
            out.push(LN::Task(LT { budget: vec!["0.5".into(), "0.5".into(), num.clone()], sentence: LS { term: a.clone(), punctuation: p.clone(), stamp: String::new(), truth: vec![num.clone(), num] } }));
        }
    }
    out
}

pub fn contains_empty(t: &LTerm) -> bool {
    match t {
        LTerm::Atom { .. } => false,
        LTerm::Compound { terms, .. } | LTerm::Set { terms, .. } => {
            terms.is_empty() || terms.iter().any(contains_empty)
        }
        LTerm::Statement { subject, predicate, .. } => contains_empty(subject) || contains_empty(predicate),
    }
}

/// stamp strings in the format's own bracket convention
pub fn stamps(f: &F) -> Vec<String> {
    let s = &f.e.sentence;
    let (l, r) = s.stamp_brackets;
    let mut v = vec![String::new()];
    for m in [s.stamp_past, s.stamp_present, s.stamp_future] {
        v.push(format!("{l}{m}{r}"));
    }
    for n in ["0", "-1", "+137"] {
        v.push(format!("{l}{}{n}{r}", s.stamp_fixed));
    }
    v
}

pub fn truths() -> Vec<Vec<String>> {
    let s = |xs: &[&str]| xs.iter().map(|x| x.to_string()).collect::<Vec<_>>();
    vec![s(&[]), s(&["1"]), s(&["0.5", "0.9"]), s(&[".5", "1.0", "007"]), s(&["1.", ".0"]), s(&["1", "2", "3", "4", "5", "6", "7", "8", "9"])]
}

pub fn budgets() -> Vec<Option<Vec<String>>> {
    let s = |xs: &[&str]| Some(xs.iter().map(|x| x.to_string()).collect::<Vec<_>>());
    vec![None, s(&[]), s(&["0.5"]), s(&["0.5", ".75", "0.4"]), s(&["1", "1", "1", "0.25"]), s(&[".5", "0.75", "1."]), s(&["."]), s(&["0", "1", "0", "1", "0", "1", "0", "1", "0.5"])]
}

pub fn tops(f: &F) -> Vec<LTerm> {
    let mut v = atoms(f);
    v.extend(reps(f));
    v
}

/// sentences and tasks: tops x punctuations x stamps x truths x budgets
pub fn u_sent(f: &F) -> Vec<LN> {
    let mut out = vec![];
    for t in tops(f) {
        for p in f.punctuations() {
            for st in stamps(f) {
                for tr in truths() {
                    for b in budgets() {
                        let s = LS { term: t.clone(), punctuation: p.to_string(), stamp: st.clone(), truth: tr.clone() };
                        out.push(match b {
                            None => LN::Sentence(s),
                            Some(b) => LN::Task(LT { budget: b, sentence: s }),
                        });
                    }
                }
            }
        }
    }
    out.extend(numeric_family(f));
    out
}

/// a dozen sentences / tasks over two terms, built directly (cheap: used where a whole process exists only
/// to evaluate one of them): punctuations, stamps, truth and budget lists rotated against each other
pub fn few_sentences(f: &F) -> Vec<LN> {
    let ts = [atom("", "a"), reps(f).into_iter().last().unwrap()];
    let (ps, sts, trs, bs) = (f.punctuations(), stamps(f), truths(), budgets());
    let mut out = vec![];
    for k in 0..12usize {
        let s = LS { term: ts[k % 2].clone(), punctuation: ps[k % ps.len()].to_string(), stamp: sts[(k * 3) % sts.len()].clone(), truth: trs[(k * 5) % trs.len()].clone() };
        out.push(match bs[(k * 7) % bs.len()].clone() {
            None => LN::Sentence(s),
            Some(b) => LN::Task(LT { budget: b, sentence: s }),
        });
    }
    out
}

pub fn show(n: &LN) -> String {
    format!("{n:?}")
}
