mod distinct;
mod emit;
mod env;
mod fmts;
mod hostile;
mod lexu;
mod model;
mod ops;
mod peg;
mod report;
mod universe;
mod props;
mod replay;
mod strings;
mod watch;

use report::Tier;

fn main() {
    let args: Vec<String> = std::env::args().collect();
    if args.len() < 3 {
        eprintln!("usage: nvcheck <ID> quick|thorough | nvcheck <ID> --replay <file>");
        std::process::exit(2);
    }
    let id = args[1].as_str();
    if args[2] == "--replay" {
        let path = args.get(3).expect("replay file");
        std::process::exit(props::replay(id, path));
    }
    let tier = match args[2].as_str() {
        "thorough" => Tier::Thorough,
        "quick" => Tier::Quick,
        other => {
            eprintln!("unknown tier {other}");
            std::process::exit(2);
        }
    };
    // generous stacks for the harness' own recursion; the code under test is run on 2 MiB
    // worker stacks where the property talks about stack use (C04/C05)
    rayon::ThreadPoolBuilder::new().stack_size(16 << 20).build_global().unwrap();
    report::install_quiet_panic_hook();
    let code = props::run(id, tier);
    std::process::exit(code);
}
