mod distinct;
mod emit;
mod env;
mod fmts;
mod history;
mod hostile;
mod lexu;
mod model;
mod ops;
mod peg;
mod report;
mod universe;
mod props;
mod replay;
mod strings;
mod watch;

use report::Tier;

fn main() {
    let args: Vec<String> = std::env::args().collect();
    if args.len() < 3 {
        eprintln!("usage: nvcheck <ID> quick|thorough | nvcheck <ID> --replay <file>");
        std::process::exit(2);
    }
    let id = args[1].as_str();
    if args[2] == "--replay" {
        let path = args.get(3).expect("replay file");
        std::process::exit(props::replay(id, path));
    }
    if args[2] == "--ops" {
        // internal: outcome of one op of this property's call-history alphabet, in this fresh process
        let k: usize = args.get(3).and_then(|x| x.parse().ok()).expect("op index");
        report::install_quiet_panic_hook();
        std::process::exit(history::serve(&props::history_ops(id), k));
    }
    if args[2] == "--probe" {
        // internal: run one journaled case again in this (expendable) process
        let path = args.get(3).expect("probe file");
        let j: serde_json::Value = serde_json::from_str(&std::fs::read_to_string(path).expect("probe file")).expect("probe json");
        report::install_quiet_panic_hook();
        props::probe(id, j["tag"].as_str().unwrap_or(""), j["what"].as_str().unwrap_or(""));
        std::process::exit(0);
    }
    if std::env::var("NVCHECK_CHILD").is_err() {
        std::process::exit(supervise(&args));
    }
    if let Ok(p) = std::env::var("NVCHECK_JOURNAL") {
        watch::open_journal(&p);
    }
    let tier = match args[2].as_str() {
        "thorough" => Tier::Thorough,
        "quick" => Tier::Quick,
        other => {
            eprintln!("unknown tier {other}");
            std::process::exit(2);
        }
    };
    // generous stacks for the harness' own recursion; the code under test is run on 2 MiB
    // worker stacks where the property talks about stack use (C04/C05)
    rayon::ThreadPoolBuilder::new().stack_size(16 << 20).build_global().unwrap();
    report::install_quiet_panic_hook();
    let code = props::run(id, tier);
    std::process::exit(code);
}

/// Parent mode: run the check in a child process. Exit codes 0/1/2 of the child are passed on; if
/// the child is killed (stack overflow, abort, OOM) the cases that were in flight are read from
/// the crash journal and probed one by one in fresh subprocesses; a case that kills its probe is
/// reported as a VIOLATION (the property family "never panics, aborts or loops").
fn supervise(args: &[String]) -> i32 {
    use std::process::Command;
    let id = args[1].as_str();
    let exe = std::path::PathBuf::from("/proc/self/exe"); // the running binary itself, even if the file was rebuilt meanwhile
    let out = report::out_dir();
    let _ = std::fs::create_dir_all(format!("{out}/target"));
    // one journal per supervising process, so two runs of the same check cannot truncate each other's file
    let journal = format!("{out}/target/journal-{id}-{}.bin", std::process::id());
    let status = Command::new(&exe).args(&args[1..]).env("NVCHECK_CHILD", "1").env("NVCHECK_JOURNAL", &journal).status();
    let status = match status {
        Ok(s) => s,
        Err(e) => {
            println!("MACHINERY-FAILURE: cannot start the check process: {e}");
            return 2;
        }
    };
    if let Some(code) = status.code() {
        if (0..=2).contains(&code) {
            let _ = std::fs::remove_file(&journal);
            return code;
        }
    }
    println!("check process for {id} died ({status}); probing the cases that were in flight");
    let cands = watch::read_journal(&journal);
    let mut seen = std::collections::HashSet::new();
    for (n, (tag, what)) in cands.iter().enumerate() {
        if !seen.insert((tag.clone(), what.clone())) {
            continue;
        }
        let probe = format!("{out}/target/probe-{id}-{n}.json");
        let _ = std::fs::write(&probe, serde_json::json!({"tag": tag, "what": what}).to_string());
        let st = Command::new(&exe).args([id, "--probe", probe.as_str()]).env("NVCHECK_CHILD", "1").status();
        let died = match st {
            Ok(s) => s.code() != Some(0),
            Err(_) => false,
        };
        if died {
            let _ = std::fs::create_dir_all(format!("{out}/replays"));
            let path = format!("{out}/replays/{id}-crash-{n}.json");
            let body = serde_json::json!({"property": id, "summary": "the process is killed (stack overflow / abort) while handling this case",
                "case": {"op": "crash", "tag": tag, "what": what}});
            let _ = std::fs::write(&path, serde_json::to_string_pretty(&body).unwrap());
            println!("VIOLATION property={id} replay={path}");
            println!("  the process dies ({:?}) on case [{}] {:?}", st.map(|s| s.to_string()), tag, what);
            let ev = serde_json::json!({"property_id": id, "tier": if args.get(2).map(|s| s.as_str()) == Some("thorough") { "thorough" } else { "quick" },
                "seed": 0, "level": "model_checking", "wall_s": 0.0, "violations": 1,
                "coverage": {"evaluations": cands.len(), "distinct_nontrivial": 0, "exhaustive": false,
                    "samples": [{"crashing_case": what}], "rule": "the check process was killed; in-flight cases from the crash journal were probed in subprocesses"}});
            let _ = std::fs::write(format!("{out}/evidence/{id}.json"), serde_json::to_string_pretty(&ev).unwrap());
            return 1;
        }
    }
    println!("MACHINERY-FAILURE: the check process died ({status}) and none of the {} journaled cases reproduces it", cands.len());
    2
}
