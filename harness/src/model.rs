//! Recipes (how a value is built), the canonical form used as the *only* notion of semantic
//! equality in the harness, and the bridge to the real enum types.
//!
//! `R` is used in two roles: as a *recipe* (children in the order they are inserted, duplicates
//! allowed) and, after `canon`, as the canonical form (unordered children sorted and deduplicated,
//! symmetric operands sorted). Nothing here calls `Term::eq` or `Term::hash`.

use narsese::enum_narsese::{Budget, Narsese, Punctuation, Sentence, Stamp, Task, Term, Truth};
use serde_json::{json, Value as J};

#[derive(Clone, Copy, Debug, PartialEq, Eq, PartialOrd, Ord, Hash)]
#[repr(u8)]
pub enum Tag {
    Word,
    Placeholder,
    IVar,
    DVar,
    QVar,
    Interval,
    Operator,
    SetExt,
    SetInt,
    IntExt,
    IntInt,
    DiffExt,
    DiffInt,
    Product,
    ImageExt,
    ImageInt,
    Conj,
    Disj,
    Neg,
    SeqConj,
    ParConj,
    Inh,
    Sim,
    Impl,
    Equiv,
    ImplPred,
    ImplConc,
    ImplRetro,
    EquivPred,
    EquivConc,
}
use Tag::*;

pub const ALL_TAGS: [Tag; 30] = [
    Word, Placeholder, IVar, DVar, QVar, Interval, Operator, SetExt, SetInt, IntExt, IntInt,
    DiffExt, DiffInt, Product, ImageExt, ImageInt, Conj, Disj, Neg, SeqConj, ParConj, Inh, Sim,
    Impl, Equiv, ImplPred, ImplConc, ImplRetro, EquivPred, EquivConc,
];
pub const NAMED_ATOMS: [Tag; 5] = [Word, IVar, DVar, QVar, Operator];
pub const COMPOUND_TAGS: [Tag; 14] = [
    SetExt, SetInt, IntExt, IntInt, DiffExt, DiffInt, Product, ImageExt, ImageInt, Conj, Disj,
    Neg, SeqConj, ParConj,
];
pub const STATEMENT_TAGS: [Tag; 9] = [
    Inh, Sim, Impl, Equiv, ImplPred, ImplConc, ImplRetro, EquivPred, EquivConc,
];

#[derive(Clone, Copy, Debug, PartialEq, Eq)]
pub enum Shape {
    Atom,
    /// unordered, duplicate-free, variable arity (>=1 for well-formed values)
    Set,
    /// ordered, variable arity
    Seq,
    /// ordered + placeholder index
    Image,
    Unary,
    /// ordered pair
    Pair,
    /// unordered pair (no dedup)
    SymPair,
}

impl Tag {
    pub fn shape(self) -> Shape {
        match self {
            Word | Placeholder | IVar | DVar | QVar | Interval | Operator => Shape::Atom,
            SetExt | SetInt | IntExt | IntInt | Conj | Disj | ParConj => Shape::Set,
            Product | SeqConj => Shape::Seq,
            ImageExt | ImageInt => Shape::Image,
            Neg => Shape::Unary,
            DiffExt | DiffInt | Inh | Impl | ImplPred | ImplConc | ImplRetro | EquivPred => {
                Shape::Pair
            }
            Sim | Equiv | EquivConc => Shape::SymPair,
        }
    }
    pub fn is_atom(self) -> bool {
        self.shape() == Shape::Atom
    }
    pub fn is_statement(self) -> bool {
        STATEMENT_TAGS.contains(&self)
    }
    pub fn is_compound(self) -> bool {
        COMPOUND_TAGS.contains(&self)
    }
    pub fn name(self) -> &'static str {
        match self {
            Word => "Word",
            Placeholder => "Placeholder",
            IVar => "VariableIndependent",
            DVar => "VariableDependent",
            QVar => "VariableQuery",
            Interval => "Interval",
            Operator => "Operator",
            SetExt => "SetExtension",
            SetInt => "SetIntension",
            IntExt => "IntersectionExtension",
            IntInt => "IntersectionIntension",
            DiffExt => "DifferenceExtension",
            DiffInt => "DifferenceIntension",
            Product => "Product",
            ImageExt => "ImageExtension",
            ImageInt => "ImageIntension",
            Conj => "Conjunction",
            Disj => "Disjunction",
            Neg => "Negation",
            SeqConj => "ConjunctionSequential",
            ParConj => "ConjunctionParallel",
            Inh => "Inheritance",
            Sim => "Similarity",
            Impl => "Implication",
            Equiv => "Equivalence",
            ImplPred => "ImplicationPredictive",
            ImplConc => "ImplicationConcurrent",
            ImplRetro => "ImplicationRetrospective",
            EquivPred => "EquivalencePredictive",
            EquivConc => "EquivalenceConcurrent",
        }
    }
}

/// Recipe / canonical form of a term.
#[derive(Clone, Debug, PartialEq, Eq, PartialOrd, Ord, Hash)]
pub struct R {
    pub tag: Tag,
    /// atom name (named atoms only)
    pub name: String,
    /// interval value, or image placeholder index
    pub idx: usize,
    pub kids: Vec<R>,
}

impl R {
    pub fn atom(tag: Tag, name: &str) -> R {
        R { tag, name: name.to_string(), idx: 0, kids: vec![] }
    }
    pub fn word(name: &str) -> R {
        R::atom(Word, name)
    }
    pub fn placeholder() -> R {
        R { tag: Placeholder, name: String::new(), idx: 0, kids: vec![] }
    }
    pub fn interval(n: usize) -> R {
        R { tag: Interval, name: String::new(), idx: n, kids: vec![] }
    }
    pub fn node(tag: Tag, kids: Vec<R>) -> R {
        R { tag, name: String::new(), idx: 0, kids }
    }
    pub fn image(tag: Tag, idx: usize, kids: Vec<R>) -> R {
        R { tag, name: String::new(), idx, kids }
    }
    pub fn pair(tag: Tag, a: R, b: R) -> R {
        R::node(tag, vec![a, b])
    }

    /// Structural well-formedness of a recipe w.r.t. arity (not names).
    pub fn arity_ok(&self) -> bool {
        let n = self.kids.len();
        (match self.tag.shape() {
            Shape::Atom => n == 0,
            Shape::Set | Shape::Seq => n >= 1,
            // an image consisting only of its placeholder is accepted by the parser
            Shape::Image => self.idx <= n,
            Shape::Unary => n == 1,
            Shape::Pair | Shape::SymPair => n == 2,
        }) && self.kids.iter().all(|k| k.arity_ok())
    }

    /// Canonical form: sort + dedup unordered children, sort symmetric operands, recursively.
    pub fn canon(&self) -> R {
        let mut kids: Vec<R> = self.kids.iter().map(|k| k.canon()).collect();
        match self.tag.shape() {
            Shape::Set => {
                kids.sort();
                kids.dedup();
            }
            Shape::SymPair => kids.sort(),
            _ => {}
        }
        R { tag: self.tag, name: self.name.clone(), idx: self.idx, kids }
    }

    pub fn depth(&self) -> usize {
        1 + self.kids.iter().map(|k| k.depth()).max().unwrap_or(0)
    }
    pub fn size(&self) -> usize {
        1 + self.kids.iter().map(|k| k.size()).sum::<usize>()
    }
    pub fn any(&self, f: &dyn Fn(&R) -> bool) -> bool {
        f(self) || self.kids.iter().any(|k| k.any(f))
    }

    /// KF-1 shape: an image whose own component list contains a placeholder at a position
    /// before its placeholder index (so the first `_` printed is a component, not the marker).
    pub fn has_placeholder_component_in_image(&self) -> bool {
        self.any(&|r| {
            r.tag.shape() == Shape::Image
                && r.kids.iter().take(r.idx).any(|k| k.tag == Placeholder)
        })
    }

    /// an image with a placeholder among its own components, at any position (the shape a stricter
    /// constructor could legitimately refuse)
    pub fn has_any_placeholder_component_in_image(&self) -> bool {
        self.any(&|r| r.tag.shape() == Shape::Image && r.kids.iter().any(|k| k.tag == Placeholder))
    }

    /// Build the real enum term through the crate's public constructors, inserting children in
    /// recipe order. Panics (inside the crate) if the recipe violates a constructor's contract.
    pub fn build(&self) -> Term {
        let _w = crate::watch::enter_with(|| format!("building {}", self.show()));
        self.build_inner()
    }

    fn build_inner(&self) -> Term {
        // children first (eagerly), so that set containers are created in post-order
        let kids: Vec<Term> = self.kids.iter().map(|k| k.build()).collect();
        let mut ks = kids.into_iter();
        let mut two = |ks: &mut dyn Iterator<Item = Term>| {
            let a = ks.next().expect("pair needs 2 kids");
            let b = ks.next().expect("pair needs 2 kids");
            (a, b)
        };
        match self.tag {
            Word => Term::new_word(self.name.as_str()),
            Placeholder => Term::new_placeholder(),
            IVar => Term::new_variable_independent(self.name.as_str()),
            DVar => Term::new_variable_dependent(self.name.as_str()),
            QVar => Term::new_variable_query(self.name.as_str()),
            Interval => Term::new_interval(self.idx),
            Operator => Term::new_operator(self.name.as_str()),
            SetExt => Term::new_set_extension(ks),
            SetInt => Term::new_set_intension(ks),
            IntExt => Term::new_intersection_extension(ks),
            IntInt => Term::new_intersection_intension(ks),
            DiffExt => {
                let (a, b) = two(&mut ks);
                Term::new_difference_extension(a, b)
            }
            DiffInt => {
                let (a, b) = two(&mut ks);
                Term::new_difference_intension(a, b)
            }
            Product => Term::new_product(ks),
            ImageExt => Term::new_image_extension(self.idx, ks),
            ImageInt => Term::new_image_intension(self.idx, ks),
            Conj => Term::new_conjunction(ks),
            Disj => Term::new_disjunction(ks),
            Neg => Term::new_negation(ks.next().expect("neg needs 1 kid")),
            SeqConj => Term::new_conjunction_sequential(ks),
            ParConj => Term::new_conjunction_parallel(ks),
            Inh => {
                let (a, b) = two(&mut ks);
                Term::new_inheritance(a, b)
            }
            Sim => {
                let (a, b) = two(&mut ks);
                Term::new_similarity(a, b)
            }
            Impl => {
                let (a, b) = two(&mut ks);
                Term::new_implication(a, b)
            }
            Equiv => {
                let (a, b) = two(&mut ks);
                Term::new_equivalence(a, b)
            }
            ImplPred => {
                let (a, b) = two(&mut ks);
                Term::new_implication_predictive(a, b)
            }
            ImplConc => {
                let (a, b) = two(&mut ks);
                Term::new_implication_concurrent(a, b)
            }
            ImplRetro => {
                let (a, b) = two(&mut ks);
                Term::new_implication_retrospective(a, b)
            }
            EquivPred => {
                let (a, b) = two(&mut ks);
                Term::new_equivalence_predictive(a, b)
            }
            EquivConc => {
                let (a, b) = two(&mut ks);
                Term::new_equivalence_concurrent(a, b)
            }
        }
    }

    /// Build with raw enum variants only (no constructor helper of the crate is involved, except
    /// the set container which has no other way in). Used as the independent "expected value".
    pub fn build_raw(&self) -> Term {
        // The only non-variant step is collecting into the crate's set type.
        let set = |kids: &Vec<R>| kids.iter().map(|k| k.build_raw()).collect::<Vec<_>>();
        let bx = |r: &R| Box::new(r.build_raw());
        let k = &self.kids;
        match self.tag {
            Word => Term::Word(self.name.clone()),
            Placeholder => Term::Placeholder,
            IVar => Term::VariableIndependent(self.name.clone()),
            DVar => Term::VariableDependent(self.name.clone()),
            QVar => Term::VariableQuery(self.name.clone()),
            Interval => Term::Interval(self.idx),
            Operator => Term::Operator(self.name.clone()),
            SetExt => Term::SetExtension(set(k).into_iter().collect()),
            SetInt => Term::SetIntension(set(k).into_iter().collect()),
            IntExt => Term::IntersectionExtension(set(k).into_iter().collect()),
            IntInt => Term::IntersectionIntension(set(k).into_iter().collect()),
            DiffExt => Term::DifferenceExtension(bx(&k[0]), bx(&k[1])),
            DiffInt => Term::DifferenceIntension(bx(&k[0]), bx(&k[1])),
            Product => Term::Product(set(k)),
            ImageExt => Term::ImageExtension(self.idx, set(k)),
            ImageInt => Term::ImageIntension(self.idx, set(k)),
            Conj => Term::Conjunction(set(k).into_iter().collect()),
            Disj => Term::Disjunction(set(k).into_iter().collect()),
            Neg => Term::Negation(bx(&k[0])),
            SeqConj => Term::ConjunctionSequential(set(k)),
            ParConj => Term::ConjunctionParallel(set(k).into_iter().collect()),
            Inh => Term::Inheritance(bx(&k[0]), bx(&k[1])),
            Sim => Term::Similarity(bx(&k[0]), bx(&k[1])),
            Impl => Term::Implication(bx(&k[0]), bx(&k[1])),
            Equiv => Term::Equivalence(bx(&k[0]), bx(&k[1])),
            ImplPred => Term::ImplicationPredictive(bx(&k[0]), bx(&k[1])),
            ImplConc => Term::ImplicationConcurrent(bx(&k[0]), bx(&k[1])),
            ImplRetro => Term::ImplicationRetrospective(bx(&k[0]), bx(&k[1])),
            EquivPred => Term::EquivalencePredictive(bx(&k[0]), bx(&k[1])),
            EquivConc => Term::EquivalenceConcurrent(bx(&k[0]), bx(&k[1])),
        }
    }

    /// Read a real term back into `R` by matching on the public variants; unordered children come
    /// in the container's iteration order (so this is *not* canonical; call `.canon()`).
    pub fn of_term(t: &Term) -> R {
        let l = |v: &mut dyn Iterator<Item = &Term>| v.map(R::of_term).collect::<Vec<_>>();
        let p = |a: &Term, b: &Term| vec![R::of_term(a), R::of_term(b)];
        match t {
            Term::Word(n) => R::atom(Word, n),
            Term::Placeholder => R::placeholder(),
            Term::VariableIndependent(n) => R::atom(IVar, n),
            Term::VariableDependent(n) => R::atom(DVar, n),
            Term::VariableQuery(n) => R::atom(QVar, n),
            Term::Interval(i) => R::interval(*i),
            Term::Operator(n) => R::atom(Operator, n),
            Term::SetExtension(s) => R::node(SetExt, l(&mut s.iter())),
            Term::SetIntension(s) => R::node(SetInt, l(&mut s.iter())),
            Term::IntersectionExtension(s) => R::node(IntExt, l(&mut s.iter())),
            Term::IntersectionIntension(s) => R::node(IntInt, l(&mut s.iter())),
            Term::DifferenceExtension(a, b) => R::node(DiffExt, p(a, b)),
            Term::DifferenceIntension(a, b) => R::node(DiffInt, p(a, b)),
            Term::Product(v) => R::node(Product, l(&mut v.iter())),
            Term::ImageExtension(i, v) => R::image(ImageExt, *i, l(&mut v.iter())),
            Term::ImageIntension(i, v) => R::image(ImageInt, *i, l(&mut v.iter())),
            Term::Conjunction(s) => R::node(Conj, l(&mut s.iter())),
            Term::Disjunction(s) => R::node(Disj, l(&mut s.iter())),
            Term::Negation(a) => R::node(Neg, vec![R::of_term(a)]),
            Term::ConjunctionSequential(v) => R::node(SeqConj, l(&mut v.iter())),
            Term::ConjunctionParallel(s) => R::node(ParConj, l(&mut s.iter())),
            Term::Inheritance(a, b) => R::node(Inh, p(a, b)),
            Term::Similarity(a, b) => R::node(Sim, p(a, b)),
            Term::Implication(a, b) => R::node(Impl, p(a, b)),
            Term::Equivalence(a, b) => R::node(Equiv, p(a, b)),
            Term::ImplicationPredictive(a, b) => R::node(ImplPred, p(a, b)),
            Term::ImplicationConcurrent(a, b) => R::node(ImplConc, p(a, b)),
            Term::ImplicationRetrospective(a, b) => R::node(ImplRetro, p(a, b)),
            Term::EquivalencePredictive(a, b) => R::node(EquivPred, p(a, b)),
            Term::EquivalenceConcurrent(a, b) => R::node(EquivConc, p(a, b)),
        }
    }

    pub fn canon_of_term(t: &Term) -> R {
        R::of_term(t).canon()
    }

    /// Compact human-readable rendering, e.g. `SetExtension[Word(a),Word(b)]`.
    pub fn show(&self) -> String {
        match self.tag.shape() {
            Shape::Atom => match self.tag {
                Placeholder => "_".to_string(),
                Interval => format!("Interval({})", self.idx),
                t => format!("{}({:?})", t.name(), self.name),
            },
            Shape::Image => format!(
                "{}@{}[{}]",
                self.tag.name(),
                self.idx,
                self.kids.iter().map(|k| k.show()).collect::<Vec<_>>().join(",")
            ),
            _ => format!(
                "{}[{}]",
                self.tag.name(),
                self.kids.iter().map(|k| k.show()).collect::<Vec<_>>().join(",")
            ),
        }
    }

    pub fn to_json(&self) -> J {
        json!({"tag": self.tag.name(), "name": self.name, "idx": self.idx,
               "kids": self.kids.iter().map(|k| k.to_json()).collect::<Vec<_>>()})
    }
}

// ---------------------------------------------------------------------------------------------
// sentences / tasks

#[derive(Clone, Copy, Debug, PartialEq, Eq, PartialOrd, Ord, Hash)]
pub enum P {
    Judgement,
    Goal,
    Question,
    Quest,
}
pub const ALL_P: [P; 4] = [P::Judgement, P::Goal, P::Question, P::Quest];

#[derive(Clone, Copy, Debug, PartialEq, Eq, PartialOrd, Ord, Hash)]
pub enum St {
    Eternal,
    Past,
    Present,
    Future,
    Fixed(isize),
}

/// A value of the enum model described independently of the crate's types.
/// kind: budget None & punct None => term; punct Some & budget None => sentence; both => task.
#[derive(Clone, Debug, PartialEq)]
pub struct V {
    pub term: R,
    pub punct: Option<P>,
    pub stamp: St,
    /// 0..=2 numbers (must be empty for Question/Quest: those variants carry no truth)
    pub truth: Vec<f64>,
    /// None = no budget (term or sentence); Some(0..=3 numbers) = task
    pub budget: Option<Vec<f64>>,
}

#[derive(Clone, Copy, Debug, PartialEq, Eq, PartialOrd, Ord, Hash)]
pub enum Kind {
    Term,
    Sentence,
    Task,
}

impl V {
    pub fn term(r: R) -> V {
        V { term: r, punct: None, stamp: St::Eternal, truth: vec![], budget: None }
    }
    pub fn kind(&self) -> Kind {
        match (&self.punct, &self.budget) {
            (None, _) => Kind::Term,
            (Some(_), None) => Kind::Sentence,
            (Some(_), Some(_)) => Kind::Task,
        }
    }
    pub fn build_truth(&self) -> Truth {
        match self.truth.as_slice() {
            [] => Truth::Empty,
            [f] => Truth::Single(*f),
            [f, c, ..] => Truth::Double(*f, *c),
        }
    }
    pub fn build_budget(b: &[f64]) -> Budget {
        match b {
            [] => Budget::Empty,
            [p] => Budget::Single(*p),
            [p, d] => Budget::Double(*p, *d),
            [p, d, q, ..] => Budget::Triple(*p, *d, *q),
        }
    }
    pub fn build_stamp(&self) -> Stamp {
        match self.stamp {
            St::Eternal => Stamp::Eternal,
            St::Past => Stamp::Past,
            St::Present => Stamp::Present,
            St::Future => Stamp::Future,
            St::Fixed(t) => Stamp::Fixed(t),
        }
    }
    pub fn build_sentence(&self) -> Sentence {
        let t = self.term.build();
        match self.punct.expect("sentence needs punctuation") {
            P::Judgement => Sentence::Judgement(t, self.build_truth(), self.build_stamp()),
            P::Goal => Sentence::Goal(t, self.build_truth(), self.build_stamp()),
            P::Question => Sentence::Question(t, self.build_stamp()),
            P::Quest => Sentence::Quest(t, self.build_stamp()),
        }
    }
    pub fn build(&self) -> Narsese {
        match self.kind() {
            Kind::Term => Narsese::Term(self.term.build()),
            Kind::Sentence => Narsese::Sentence(self.build_sentence()),
            Kind::Task => Narsese::Task(Task(
                self.build_sentence(),
                V::build_budget(self.budget.as_ref().unwrap()),
            )),
        }
    }

    /// canonical, comparable form: floats by bit pattern
    pub fn canon(&self) -> CV {
        let has_truth = matches!(self.punct, Some(P::Judgement) | Some(P::Goal));
        CV {
            kind: self.kind(),
            term: self.term.canon(),
            punct: self.punct,
            stamp: if self.punct.is_some() { self.stamp } else { St::Eternal },
            truth: if has_truth { self.truth.iter().map(|f| f.to_bits()).collect() } else { vec![] },
            budget: if self.punct.is_some() {
                self.budget.as_ref().map(|b| b.iter().map(|f| f.to_bits()).collect())
            } else {
                None
            },
        }
    }

    pub fn show(&self) -> String {
        format!(
            "{:?}{{term:{}, punct:{:?}, stamp:{:?}, truth:{:?}, budget:{:?}}}",
            self.kind(),
            self.term.show(),
            self.punct,
            self.stamp,
            self.truth,
            self.budget
        )
    }
}

#[derive(Clone, Debug, PartialEq, Eq, PartialOrd, Ord, Hash)]
pub struct CV {
    pub kind: Kind,
    pub term: R,
    pub punct: Option<P>,
    pub stamp: St,
    pub truth: Vec<u64>,
    pub budget: Option<Vec<u64>>,
}

pub fn p_of(p: &Punctuation) -> P {
    match p {
        Punctuation::Judgement => P::Judgement,
        Punctuation::Goal => P::Goal,
        Punctuation::Question => P::Question,
        Punctuation::Quest => P::Quest,
    }
}
pub fn st_of(s: &Stamp) -> St {
    match s {
        Stamp::Eternal => St::Eternal,
        Stamp::Past => St::Past,
        Stamp::Present => St::Present,
        Stamp::Future => St::Future,
        Stamp::Fixed(t) => St::Fixed(*t),
    }
}
pub fn truth_bits(t: &Truth) -> Vec<u64> {
    match t {
        Truth::Empty => vec![],
        Truth::Single(f) => vec![f.to_bits()],
        Truth::Double(f, c) => vec![f.to_bits(), c.to_bits()],
    }
}
pub fn truth_floats(t: &Truth) -> Vec<f64> {
    match t {
        Truth::Empty => vec![],
        Truth::Single(f) => vec![*f],
        Truth::Double(f, c) => vec![*f, *c],
    }
}
pub fn budget_floats(b: &Budget) -> Vec<f64> {
    match b {
        Budget::Empty => vec![],
        Budget::Single(p) => vec![*p],
        Budget::Double(p, d) => vec![*p, *d],
        Budget::Triple(p, d, q) => vec![*p, *d, *q],
    }
}
pub fn budget_bits(b: &Budget) -> Vec<u64> {
    budget_floats(b).iter().map(|f| f.to_bits()).collect()
}

fn cv_of_sentence(s: &Sentence, budget: Option<Vec<u64>>) -> CV {
    let (term, punct, truth, stamp) = match s {
        Sentence::Judgement(t, tr, st) => (t, P::Judgement, truth_bits(tr), st),
        Sentence::Goal(t, tr, st) => (t, P::Goal, truth_bits(tr), st),
        Sentence::Question(t, st) => (t, P::Question, vec![], st),
        Sentence::Quest(t, st) => (t, P::Quest, vec![], st),
    };
    CV {
        kind: if budget.is_some() { Kind::Task } else { Kind::Sentence },
        term: R::canon_of_term(term),
        punct: Some(punct),
        stamp: st_of(stamp),
        truth,
        budget,
    }
}

/// Canonical form of a real enum Narsese value, by matching on public variants only.
pub fn cv_of(n: &Narsese) -> CV {
    match n {
        Narsese::Term(t) => CV {
            kind: Kind::Term,
            term: R::canon_of_term(t),
            punct: None,
            stamp: St::Eternal,
            truth: vec![],
            budget: None,
        },
        Narsese::Sentence(s) => cv_of_sentence(s, None),
        Narsese::Task(Task(s, b)) => cv_of_sentence(s, Some(budget_bits(b))),
    }
}

pub fn show_cv(c: &CV) -> String {
    format!(
        "{:?}{{term:{}, punct:{:?}, stamp:{:?}, truth:{:?}, budget:{:?}}}",
        c.kind,
        c.term.show(),
        c.punct,
        c.stamp,
        c.truth.iter().map(|b| f64::from_bits(*b)).collect::<Vec<_>>(),
        c.budget.as_ref().map(|b| b.iter().map(|b| f64::from_bits(*b)).collect::<Vec<_>>())
    )
}

// ---------------------------------------------------------------------------------------------
// JSON (replay files)

impl R {
    pub fn from_json(j: &J) -> R {
        let tag_name = j["tag"].as_str().unwrap_or("Word");
        let tag = ALL_TAGS.iter().copied().find(|t| t.name() == tag_name).expect("unknown tag");
        R {
            tag,
            name: j["name"].as_str().unwrap_or("").to_string(),
            idx: j["idx"].as_u64().unwrap_or(0) as usize,
            kids: j["kids"].as_array().map(|a| a.iter().map(R::from_json).collect()).unwrap_or_default(),
        }
    }
}

fn floats_to_json(xs: &[f64]) -> J {
    J::Array(xs.iter().map(|x| json!({"bits": format!("{:016x}", x.to_bits()), "approx": format!("{x:?}")})).collect())
}
fn floats_from_json(j: &J) -> Vec<f64> {
    j.as_array()
        .map(|a| {
            a.iter()
                .map(|e| f64::from_bits(u64::from_str_radix(e["bits"].as_str().unwrap_or("0"), 16).unwrap_or(0)))
                .collect()
        })
        .unwrap_or_default()
}

impl V {
    pub fn to_json(&self) -> J {
        json!({
            "show": self.show(),
            "term": self.term.to_json(),
            "punct": self.punct.map(|p| format!("{p:?}")),
            "stamp": match self.stamp { St::Fixed(t) => json!({"fixed": t.to_string()}), s => json!(format!("{s:?}")) },
            "truth": floats_to_json(&self.truth),
            "budget": self.budget.as_ref().map(|b| floats_to_json(b)),
        })
    }
    pub fn from_json(j: &J) -> V {
        let punct = match j["punct"].as_str() {
            Some("Judgement") => Some(P::Judgement),
            Some("Goal") => Some(P::Goal),
            Some("Question") => Some(P::Question),
            Some("Quest") => Some(P::Quest),
            _ => None,
        };
        let stamp = if let Some(t) = j["stamp"]["fixed"].as_str() {
            St::Fixed(t.parse().unwrap_or(0))
        } else {
            match j["stamp"].as_str() {
                Some("Past") => St::Past,
                Some("Present") => St::Present,
                Some("Future") => St::Future,
                _ => St::Eternal,
            }
        };
        V {
            term: R::from_json(&j["term"]),
            punct,
            stamp,
            truth: floats_from_json(&j["truth"]),
            budget: if j["budget"].is_null() { None } else { Some(floats_from_json(&j["budget"])) },
        }
    }
}
