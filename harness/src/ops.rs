//! Thin wrappers around the library entry points (errors rendered to strings, panics caught).

use crate::fmts::F;
use crate::report::quiet_catch;
use narsese::api::FormatTo;
use narsese::conversion::inter_type::lexical_fold::TryFoldInto;
use narsese::conversion::string::typst_formatter::FormatterTypst;
use narsese::enum_narsese::Narsese;
use narsese::lexical::Narsese as LexNarsese;
use std::panic::AssertUnwindSafe;

pub fn parse_enum(f: &F, s: &str) -> Result<Narsese, String> {
    match quiet_catch(AssertUnwindSafe(|| f.e.parse::<Narsese>(s).map_err(|e| e.to_string()))) {
        Ok(r) => r,
        Err(p) => Err(format!("PANIC: {p}")),
    }
}

pub fn parse_lex(f: &F, s: &str) -> Result<LexNarsese, String> {
    match quiet_catch(AssertUnwindSafe(|| f.l.parse(s).map_err(|e| e.to_string()))) {
        Ok(r) => r,
        Err(p) => Err(format!("PANIC: {p}")),
    }
}

/// Fold a lexical value. Every public route to the fold must agree: the impl on the whole `Narsese`, the
/// impl on the part it wraps (`Term` / `Sentence` / `Task`), and - where the folded sentence keeps its truth
/// or the task its budget - the stand-alone folds of the truth and budget lists. A disagreement is an `Err`
/// that names the routes (a check that only asks "does it return" ignores it; one that uses the value does not).
pub fn fold(f: &F, x: LexNarsese) -> Result<Narsese, String> {
    use crate::model::{budget_bits, cv_of, truth_bits};
    use narsese::api::{GetBudget, GetTruth};
    let fe = f.e;
    let r = quiet_catch(AssertUnwindSafe(move || {
        let whole = x.clone().try_fold_into(fe).map_err(|e| format!("{e:?}"));
        let (part, truth, budget): (Result<Narsese, String>, Option<Result<Vec<u64>, ()>>, Option<Result<Vec<u64>, ()>>) = match x {
            LexNarsese::Term(t) => (t.try_fold_into(fe).map(Narsese::Term).map_err(|e| format!("{e:?}")), None, None),
            LexNarsese::Sentence(s) => {
                let tr = s.truth.clone().try_fold_into(fe).map(|t| truth_bits(&t)).map_err(|_| ());
                (s.try_fold_into(fe).map(Narsese::Sentence).map_err(|e| format!("{e:?}")), Some(tr), None)
            }
            LexNarsese::Task(t) => {
                let tr = t.sentence.truth.clone().try_fold_into(fe).map(|x| truth_bits(&x)).map_err(|_| ());
                let b = t.budget.clone().try_fold_into(fe).map(|x| budget_bits(&x)).map_err(|_| ());
                (t.try_fold_into(fe).map(Narsese::Task).map_err(|e| format!("{e:?}")), Some(tr), Some(b))
            }
        };
        match (&whole, &part) {
            (Ok(a), Ok(b)) if cv_of(a) == cv_of(b) => {}
            (Err(_), Err(_)) => {}
            _ => return Err(format!("fold routes disagree: the impl on Narsese gives {:?}, the impl on the wrapped value gives {:?}", whole.as_ref().map(|n| crate::model::show_cv(&cv_of(n))), part.as_ref().map(|n| crate::model::show_cv(&cv_of(n))))),
        }
        if let Ok(n) = &whole {
            let (got_truth, got_budget) = match n {
                Narsese::Term(_) => (None, None),
                Narsese::Sentence(s) => (s.get_truth().map(truth_bits), None),
                Narsese::Task(t) => (t.get_truth().map(truth_bits), Some(budget_bits(t.get_budget()))),
            };
            if let (Some(g), Some(side)) = (&got_truth, &truth) {
                if side.as_ref() != Ok(g) {
                    return Err(format!("fold routes disagree: the folded value holds the truth {g:x?} but folding the truth list on its own gives {side:x?}"));
                }
            }
            if let (Some(g), Some(side)) = (&got_budget, &budget) {
                if side.as_ref() != Ok(g) {
                    return Err(format!("fold routes disagree: the folded task holds the budget {g:x?} but folding the budget list on its own gives {side:x?}"));
                }
            }
        }
        whole
    }));
    match r {
        Ok(r) => r,
        Err(p) => Err(format!("PANIC: {p}")),
    }
}

pub fn lex_then_fold(f: &F, s: &str) -> Result<Narsese, String> {
    let x = parse_lex(f, s).map_err(|e| format!("lexical parse: {e}"))?;
    fold(f, x).map_err(|e| format!("fold: {e}"))
}

pub fn is_panic(e: &str) -> bool {
    e.contains("PANIC: ")
}

/// Typst texts of a value through both public routes (the trait method and the generic `FormatterTypst::format`
/// entry point), without repetitions: every one of them is "the rendering" and is checked by C16
pub fn typst_routes(n: &Narsese) -> Result<Vec<String>, String> {
    match quiet_catch(AssertUnwindSafe(|| match n {
        Narsese::Term(t) => (t.format_to(&FormatterTypst), FormatterTypst.format(t)),
        Narsese::Sentence(s) => (s.format_to(&FormatterTypst), FormatterTypst.format(s)),
        Narsese::Task(t) => (t.format_to(&FormatterTypst), FormatterTypst.format(t)),
    })) {
        Ok((a, b)) if a == b => Ok(vec![a]),
        Ok((a, b)) => Ok(vec![a, b]),
        Err(p) => Err(format!("PANIC: {p}")),
    }
}

/// the text of the trait route (for callers that need one text; both routes are run, so a panic in either shows)
pub fn typst(n: &Narsese) -> Result<String, String> {
    typst_routes(n).map(|v| v.into_iter().next().unwrap_or_default())
}

/// Whitespace invariance on EVERY public route into the lexical parser: the method `NarseseFormat::parse`, the
/// free function `impl_lexical::parse`, the method and the free function `parse_term`. Each route must give the
/// same result for the spaced text `s` as for `reference`, the same token list written without optional blanks
/// (both Ok and equal, or both Err). The routes are not compared with each other: a route may be stricter or more
/// lenient than another (say, about what may follow a term) without whitespace mattering to either.
pub fn lexical_routes_agree(f: &F, s: &str, reference: &str) -> Result<(), String> {
    use narsese::conversion::string::impl_lexical as il;
    let run = |text: &str| {
        let text = text.to_string();
        let f = *f;
        quiet_catch(AssertUnwindSafe(move || {
            let a = f.l.parse(&text).map_err(|e| e.to_string());
            let b = il::parse(f.l, &text).map_err(|e| e.to_string());
            let t1 = f.l.parse_term(&text).map(LexNarsese::Term).map_err(|e| e.to_string());
            let t2 = il::parse_term(f.l, &text).map(LexNarsese::Term).map_err(|e| e.to_string());
            [a, b, t1, t2]
        }))
    };
    let spaced = run(s).map_err(|p| format!("PANIC: a lexical route panics on {s:?}: {p}"))?;
    let plain = run(reference).map_err(|p| format!("PANIC: a lexical route panics on {reference:?}: {p}"))?;
    let names = ["NarseseFormat::parse", "impl_lexical::parse", "NarseseFormat::parse_term", "impl_lexical::parse_term"];
    for i in 0..4 {
        let same = match (&spaced[i], &plain[i]) {
            (Ok(p), Ok(q)) => p == q,
            (Err(_), Err(_)) => true,
            _ => false,
        };
        if !same {
            return Err(format!("{}: {s:?} gives {:?} but the same tokens without optional blanks, {reference:?}, give {:?}", names[i], spaced[i], plain[i]));
        }
    }
    Ok(())
}
