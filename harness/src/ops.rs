//! Thin wrappers around the library entry points (errors rendered to strings, panics caught).

use crate::fmts::F;
use crate::report::quiet_catch;
use narsese::api::FormatTo;
use narsese::conversion::inter_type::lexical_fold::TryFoldInto;
use narsese::conversion::string::typst_formatter::FormatterTypst;
use narsese::enum_narsese::Narsese;
use narsese::lexical::Narsese as LexNarsese;
use std::panic::AssertUnwindSafe;

pub fn parse_enum(f: &F, s: &str) -> Result<Narsese, String> {
    match quiet_catch(AssertUnwindSafe(|| f.e.parse::<Narsese>(s).map_err(|e| e.to_string()))) {
        Ok(r) => r,
        Err(p) => Err(format!("PANIC: {p}")),
    }
}

pub fn parse_lex(f: &F, s: &str) -> Result<LexNarsese, String> {
    match quiet_catch(AssertUnwindSafe(|| f.l.parse(s).map_err(|e| e.to_string()))) {
        Ok(r) => r,
        Err(p) => Err(format!("PANIC: {p}")),
    }
}

pub fn fold(f: &F, x: LexNarsese) -> Result<Narsese, String> {
    match quiet_catch(AssertUnwindSafe(|| x.try_fold_into(f.e).map_err(|e| format!("{e:?}")))) {
        Ok(r) => r,
        Err(p) => Err(format!("PANIC: {p}")),
    }
}

pub fn lex_then_fold(f: &F, s: &str) -> Result<Narsese, String> {
    let x = parse_lex(f, s).map_err(|e| format!("lexical parse: {e}"))?;
    fold(f, x).map_err(|e| format!("fold: {e}"))
}

pub fn is_panic(e: &str) -> bool {
    e.contains("PANIC: ")
}

pub fn typst(n: &Narsese) -> Result<String, String> {
    match quiet_catch(AssertUnwindSafe(|| match n {
        Narsese::Term(t) => t.format_to(&FormatterTypst),
        Narsese::Sentence(s) => s.format_to(&FormatterTypst),
        Narsese::Task(t) => t.format_to(&FormatterTypst),
    })) {
        Ok(s) => Ok(s),
        Err(p) => Err(format!("PANIC: {p}")),
    }
}

/// Every public route into the lexical parser agrees on `s`: the method `NarseseFormat::parse`,
/// the free function `impl_lexical::parse`, the method and the free function `parse_term`; and
/// when the whole input is a bare term, `parse_term` returns that term.
pub fn lexical_routes_agree(f: &F, s: &str) -> Result<(), String> {
    use narsese::conversion::string::impl_lexical as il;
    let r = quiet_catch(AssertUnwindSafe(|| {
        let a = f.l.parse(s).map_err(|e| e.to_string());
        let b = il::parse(f.l, s).map_err(|e| e.to_string());
        let t1 = f.l.parse_term(s).map_err(|e| e.to_string());
        let t2 = il::parse_term(f.l, s).map_err(|e| e.to_string());
        (a, b, t1, t2)
    }));
    let (a, b, t1, t2) = r.map_err(|p| format!("PANIC: a lexical route panics on {s:?}: {p}"))?;
    let same = |x: &Result<LexNarsese, String>, y: &Result<LexNarsese, String>| match (x, y) {
        (Ok(p), Ok(q)) => p == q,
        (Err(_), Err(_)) => true,
        _ => false,
    };
    if !same(&a, &b) {
        return Err(format!("{s:?}: NarseseFormat::parse gives {a:?} but impl_lexical::parse gives {b:?}"));
    }
    match (&t1, &t2) {
        (Ok(p), Ok(q)) if p == q => {}
        (Err(_), Err(_)) => {}
        _ => return Err(format!("{s:?}: NarseseFormat::parse_term gives {t1:?} but impl_lexical::parse_term gives {t2:?}")),
    }
    if let Ok(LexNarsese::Term(t)) = &a {
        match &t1 {
            Ok(p) if p == t => {}
            other => return Err(format!("{s:?}: parse gives the bare term {t:?} but parse_term gives {other:?}")),
        }
    }
    Ok(())
}
