//! Thin wrappers around the library entry points (errors rendered to strings, panics caught).

use crate::fmts::F;
use crate::report::quiet_catch;
use narsese::api::FormatTo;
use narsese::conversion::inter_type::lexical_fold::TryFoldInto;
use narsese::conversion::string::typst_formatter::FormatterTypst;
use narsese::enum_narsese::Narsese;
use narsese::lexical::Narsese as LexNarsese;
use std::panic::AssertUnwindSafe;

pub fn parse_enum(f: &F, s: &str) -> Result<Narsese, String> {
    match quiet_catch(AssertUnwindSafe(|| f.e.parse::<Narsese>(s).map_err(|e| e.to_string()))) {
        Ok(r) => r,
        Err(p) => Err(format!("PANIC: {p}")),
    }
}

pub fn parse_lex(f: &F, s: &str) -> Result<LexNarsese, String> {
    match quiet_catch(AssertUnwindSafe(|| f.l.parse(s).map_err(|e| e.to_string()))) {
        Ok(r) => r,
        Err(p) => Err(format!("PANIC: {p}")),
    }
}

pub fn fold(f: &F, x: LexNarsese) -> Result<Narsese, String> {
    match quiet_catch(AssertUnwindSafe(|| x.try_fold_into(f.e).map_err(|e| format!("{e:?}")))) {
        Ok(r) => r,
        Err(p) => Err(format!("PANIC: {p}")),
    }
}

pub fn lex_then_fold(f: &F, s: &str) -> Result<Narsese, String> {
    let x = parse_lex(f, s).map_err(|e| format!("lexical parse: {e}"))?;
    fold(f, x).map_err(|e| format!("fold: {e}"))
}

pub fn is_panic(e: &str) -> bool {
    e.contains("PANIC: ")
}

pub fn typst(n: &Narsese) -> Result<String, String> {
    match quiet_catch(AssertUnwindSafe(|| match n {
        Narsese::Term(t) => t.format_to(&FormatterTypst),
        Narsese::Sentence(s) => s.format_to(&FormatterTypst),
        Narsese::Task(t) => t.format_to(&FormatterTypst),
    })) {
        Ok(s) => Ok(s),
        Err(p) => Err(format!("PANIC: {p}")),
    }
}
