//! A small interpreter for the subset of `pest` grammars the README uses, with pest semantics:
//! ordered choice, implicit WHITESPACE skipping between the factors of sequences and repetitions
//! in non-atomic rules, `@{}` atomic rules (no skipping, inner rules silent), `_{}` silent rules,
//! `!` / `&` predicates, Unicode general-category built-ins.

use regex::Regex;
use std::collections::HashMap;
use std::sync::OnceLock;

#[derive(Clone, Debug)]
pub enum E {
    Str(String),
    Rule(String),
    Seq(Vec<E>),
    Choice(Vec<E>),
    Star(Box<E>),
    Plus(Box<E>),
    Opt(Box<E>),
    Not(Box<E>),
    And(Box<E>),
}

#[derive(Clone, Copy, Debug, PartialEq)]
pub enum Modifier {
    Normal,
    Silent,
    Atomic,
    CompoundAtomic,
    NonAtomic,
}

#[derive(Clone, Debug)]
pub struct RuleDef {
    pub name: String,
    pub modifier: Modifier,
    pub expr: E,
}

#[derive(Clone, Debug)]
pub struct Grammar {
    pub rules: HashMap<String, RuleDef>,
}

#[derive(Clone, Debug, PartialEq)]
pub struct Node {
    pub rule: String,
    pub start: usize,
    pub end: usize,
    pub children: Vec<Node>,
}

// ---------------------------------------------------------------------------------------------
// grammar text -> AST

struct Lexer {
    cs: Vec<char>,
    i: usize,
}

impl Lexer {
    fn skip(&mut self) {
        loop {
            while self.i < self.cs.len() && self.cs[self.i].is_whitespace() {
                self.i += 1;
            }
            if self.i + 1 < self.cs.len() && self.cs[self.i] == '/' && self.cs[self.i + 1] == '/' {
                while self.i < self.cs.len() && self.cs[self.i] != '\n' {
                    self.i += 1;
                }
            } else {
                return;
            }
        }
    }
    fn peek(&mut self) -> Option<char> {
        self.skip();
        self.cs.get(self.i).copied()
    }
    fn eat(&mut self, c: char) -> bool {
        if self.peek() == Some(c) {
            self.i += 1;
            true
        } else {
            false
        }
    }
    fn expect(&mut self, c: char) -> Result<(), String> {
        if self.eat(c) {
            Ok(())
        } else {
            Err(format!("grammar: expected {c:?} at offset {}", self.i))
        }
    }
    fn ident(&mut self) -> Option<String> {
        self.skip();
        let st = self.i;
        while self.i < self.cs.len() && (self.cs[self.i].is_alphanumeric() || self.cs[self.i] == '_') {
            self.i += 1;
        }
        if self.i > st {
            Some(self.cs[st..self.i].iter().collect())
        } else {
            None
        }
    }
    fn string(&mut self) -> Result<String, String> {
        self.expect('"')?;
        let mut s = String::new();
        while self.i < self.cs.len() {
            let c = self.cs[self.i];
            self.i += 1;
            match c {
                '"' => return Ok(s),
                '\\' => {
                    let n = self.cs.get(self.i).copied().ok_or("grammar: dangling escape")?;
                    self.i += 1;
                    s.push(match n {
                        'n' => '\n',
                        't' => '\t',
                        'r' => '\r',
                        other => other,
                    });
                }
                other => s.push(other),
            }
        }
        Err("grammar: unterminated string".into())
    }
}

fn parse_choice(lx: &mut Lexer) -> Result<E, String> {
    let mut alts = vec![parse_seq(lx)?];
    while lx.eat('|') {
        alts.push(parse_seq(lx)?);
    }
    Ok(if alts.len() == 1 { alts.pop().unwrap() } else { E::Choice(alts) })
}

fn parse_seq(lx: &mut Lexer) -> Result<E, String> {
    let mut items = vec![parse_prefix(lx)?];
    while lx.eat('~') {
        items.push(parse_prefix(lx)?);
    }
    Ok(if items.len() == 1 { items.pop().unwrap() } else { E::Seq(items) })
}

fn parse_prefix(lx: &mut Lexer) -> Result<E, String> {
    if lx.eat('!') {
        return Ok(E::Not(Box::new(parse_prefix(lx)?)));
    }
    if lx.eat('&') {
        return Ok(E::And(Box::new(parse_prefix(lx)?)));
    }
    let mut e = parse_primary(lx)?;
    loop {
        if lx.eat('*') {
            e = E::Star(Box::new(e));
        } else if lx.eat('+') {
            e = E::Plus(Box::new(e));
        } else if lx.eat('?') {
            e = E::Opt(Box::new(e));
        } else {
            return Ok(e);
        }
    }
}

fn parse_primary(lx: &mut Lexer) -> Result<E, String> {
    match lx.peek() {
        Some('(') => {
            lx.expect('(')?;
            let e = parse_choice(lx)?;
            lx.expect(')')?;
            Ok(e)
        }
        Some('"') => Ok(E::Str(lx.string()?)),
        _ => lx.ident().map(E::Rule).ok_or_else(|| format!("grammar: unexpected input at offset {}", lx.i)),
    }
}

impl Grammar {
    pub fn parse(text: &str) -> Result<Grammar, String> {
        let mut lx = Lexer { cs: text.chars().collect(), i: 0 };
        let mut rules = HashMap::new();
        while lx.peek().is_some() {
            let name = lx.ident().ok_or_else(|| format!("grammar: rule name expected at offset {}", lx.i))?;
            lx.expect('=')?;
            let modifier = match lx.peek() {
                Some('_') => {
                    lx.i += 1;
                    Modifier::Silent
                }
                Some('@') => {
                    lx.i += 1;
                    Modifier::Atomic
                }
                Some('$') => {
                    lx.i += 1;
                    Modifier::CompoundAtomic
                }
                Some('!') => {
                    lx.i += 1;
                    Modifier::NonAtomic
                }
                _ => Modifier::Normal,
            };
            lx.expect('{')?;
            let expr = parse_choice(&mut lx)?;
            lx.expect('}')?;
            rules.insert(name.clone(), RuleDef { name, modifier, expr });
        }
        Ok(Grammar { rules })
    }
}

// ---------------------------------------------------------------------------------------------
// built-ins

fn class(name: &str, c: char) -> Option<bool> {
    static RX: OnceLock<HashMap<&'static str, Regex>> = OnceLock::new();
    let rx = RX.get_or_init(|| {
        let mut m = HashMap::new();
        m.insert("PUNCTUATION", Regex::new(r"^\p{P}$").unwrap());
        m.insert("SYMBOL", Regex::new(r"^\p{S}$").unwrap());
        m.insert("LETTER", Regex::new(r"^\p{L}$").unwrap());
        m.insert("NUMBER", Regex::new(r"^\p{N}$").unwrap());
        m.insert("WHITE_SPACE", Regex::new(r"^\p{White_Space}$").unwrap());
        m
    });
    match name {
        "ANY" => Some(true),
        "ASCII_DIGIT" => Some(c.is_ascii_digit()),
        "ASCII_ALPHA" => Some(c.is_ascii_alphabetic()),
        "ASCII_ALPHANUMERIC" => Some(c.is_ascii_alphanumeric()),
        _ => rx.get(name).map(|r| {
            let mut b = [0u8; 4];
            r.is_match(c.encode_utf8(&mut b))
        }),
    }
}

// ---------------------------------------------------------------------------------------------
// interpreter

pub struct Interp<'g> {
    pub g: &'g Grammar,
    pub input: Vec<char>,
    memo: HashMap<(String, usize, bool), Option<(usize, Vec<Node>)>>,
    pub steps: u64,
}

impl<'g> Interp<'g> {
    pub fn new(g: &'g Grammar, input: &str) -> Self {
        Interp { g, input: input.chars().collect(), memo: HashMap::new(), steps: 0 }
    }

    fn skip_ws(&mut self, mut pos: usize) -> usize {
        // (WHITESPACE | COMMENT)* ; only WHITESPACE is defined by the README grammar
        if !self.g.rules.contains_key("WHITESPACE") {
            return pos;
        }
        loop {
            match self.call("WHITESPACE", pos, true) {
                Some((p, _)) if p > pos => pos = p,
                _ => return pos,
            }
        }
    }

    fn call(&mut self, name: &str, pos: usize, atomic: bool) -> Option<(usize, Vec<Node>)> {
        if name == "EOI" {
            return if pos == self.input.len() { Some((pos, vec![])) } else { None };
        }
        if name == "SOI" {
            return if pos == 0 { Some((pos, vec![])) } else { None };
        }
        if !self.g.rules.contains_key(name) {
            let c = *self.input.get(pos)?;
            return match class(name, c) {
                Some(true) => Some((pos + 1, vec![])),
                Some(false) => None,
                None => panic!("grammar refers to unknown rule {name}"),
            };
        }
        let key = (name.to_string(), pos, atomic);
        if let Some(r) = self.memo.get(&key) {
            return r.clone();
        }
        let def = self.g.rules.get(name).unwrap().clone();
        let inner_atomic = match def.modifier {
            Modifier::Atomic | Modifier::CompoundAtomic => true,
            Modifier::NonAtomic => false,
            _ => atomic,
        };
        let r = self.eval(&def.expr, pos, inner_atomic);
        // token production: inside an atomic (@) context inner rules are silent
        let produce_children_silently = atomic && def.modifier != Modifier::NonAtomic;
        let out = r.map(|(end, kids)| {
            if produce_children_silently {
                // called from within an atomic rule: no token at all
                (end, vec![])
            } else {
                match def.modifier {
                    Modifier::Silent => (end, kids),
                    Modifier::Atomic => (end, vec![Node { rule: name.to_string(), start: pos, end, children: vec![] }]),
                    _ => (end, vec![Node { rule: name.to_string(), start: pos, end, children: kids }]),
                }
            }
        });
        self.memo.insert(key, out.clone());
        out
    }

    fn eval(&mut self, e: &E, pos: usize, atomic: bool) -> Option<(usize, Vec<Node>)> {
        self.steps += 1;
        match e {
            E::Str(s) => {
                let cs: Vec<char> = s.chars().collect();
                if self.input.len() >= pos + cs.len() && self.input[pos..pos + cs.len()] == cs[..] {
                    Some((pos + cs.len(), vec![]))
                } else {
                    None
                }
            }
            E::Rule(n) => self.call(n, pos, atomic),
            E::Seq(items) => {
                let mut p = pos;
                let mut kids = vec![];
                for (i, it) in items.iter().enumerate() {
                    if i > 0 && !atomic {
                        p = self.skip_ws(p);
                    }
                    let (np, k) = self.eval(it, p, atomic)?;
                    p = np;
                    kids.extend(k);
                }
                Some((p, kids))
            }
            E::Choice(alts) => {
                for a in alts {
                    if let Some(r) = self.eval(a, pos, atomic) {
                        return Some(r);
                    }
                }
                None
            }
            E::Star(inner) | E::Plus(inner) => {
                let mut p = pos;
                let mut kids = vec![];
                let mut count = 0;
                loop {
                    let try_from = if count > 0 && !atomic { self.skip_ws(p) } else { p };
                    match self.eval(inner, try_from, atomic) {
                        Some((np, k)) if np > try_from || count == 0 && np >= try_from => {
                            if np == try_from {
                                // zero-width match: accept once, stop (avoid looping)
                                kids.extend(k);
                                count += 1;
                                break;
                            }
                            p = np;
                            kids.extend(k);
                            count += 1;
                        }
                        _ => break,
                    }
                }
                if matches!(e, E::Plus(_)) && count == 0 {
                    None
                } else {
                    Some((p, kids))
                }
            }
            E::Opt(inner) => Some(self.eval(inner, pos, atomic).unwrap_or((pos, vec![]))),
            E::Not(inner) => {
                if self.eval(inner, pos, atomic).is_some() {
                    None
                } else {
                    Some((pos, vec![]))
                }
            }
            E::And(inner) => {
                if self.eval(inner, pos, atomic).is_some() {
                    Some((pos, vec![]))
                } else {
                    None
                }
            }
        }
    }

    /// `rule ~ EOI` from position 0 (non-atomic sequence: trailing whitespace is skipped)
    pub fn parse_whole(&mut self, rule: &str) -> Option<Node> {
        let (p, mut kids) = self.call(rule, 0, false)?;
        let p = self.skip_ws(p);
        if p == self.input.len() && kids.len() == 1 {
            kids.pop()
        } else {
            None
        }
    }

    pub fn text(&self, n: &Node) -> String {
        self.input[n.start..n.end].iter().collect()
    }
}

/// the ```pest block of a README
pub fn extract_grammar(readme: &str) -> Option<String> {
    let start = readme.find("```pest")?;
    let rest = &readme[start + 7..];
    let end = rest.find("\n```")?;
    Some(rest[..end].to_string())
}
