//! C01 - enum format -> parse round trip, in every shipped format.

use crate::env;
use crate::fmts::{self, F};
use crate::model::*;
use crate::report::{quiet_catch, Run, Tier};
use crate::universe as u;
use narsese::enum_narsese::Narsese;
use rayon::prelude::*;
use serde_json::{json, Value as J};

/// budget-content characters of the enum parser's number scanner
fn is_budget_content_name(name: &str) -> bool {
    !name.is_empty() && name.chars().all(|c| c.is_ascii_digit() || c == '.')
}

/// features of the *input* used to match known findings
pub fn features(f: &F, v: &V) -> Vec<String> {
    let mut fs = vec![];
    if v.term.has_placeholder_component_in_image() {
        fs.push("image-placeholder-component-before-index".to_string());
    }
    if f.name != "han"
        && v.kind() != Kind::Task
        && v.term.tag == Tag::IVar
        && is_budget_content_name(&v.term.name)
    {
        fs.push("toplevel-independent-variable-named-like-budget-content".to_string());
    }
    if f.name == "han" && han_copula_ambiguity(f, &v.term) {
        fs.push("han-name-ending-in-first-character-of-a-two-character-copula".to_string());
    }
    if f.name == "han" && v.kind() != Kind::Task {
        if let Some(w) = leading_word(&v.term) {
            if han_budget_lookalike(w) {
                fs.push("han-leading-word-spells-a-budget".to_string());
            }
        }
    }
    if f.name == "han" && v.kind() == Kind::Term {
        if let Some(w) = leading_word(&v.term) {
            if han_item_lookalike_suffix(w) {
                fs.push("han-bare-word-ending-in-a-stamp-or-truth-form".to_string());
            }
        }
    }
    fs
}

/// Han: some atom name ends in 具 / 将 / 现 / 曾, the first character of the copulas
/// 具有, 将得, 将同, 现得, 现同, 曾得, 曾同 (whose second character is itself a copula)
pub fn han_name_ends_with_copula_head(r: &R) -> bool {
    r.any(&|n| n.tag.is_atom() && matches!(n.name.chars().last(), Some('具') | Some('将') | Some('现') | Some('曾')))
}

/// Han, precise form for values printed by the library: some statement whose subject is an atom
/// with a name ending in X, printed directly before a copula starting with Y, where XY is itself a
/// copula (将+得, 将+同, 现+得, ... , 具+有)
pub fn han_copula_ambiguity(f: &F, r: &R) -> bool {
    let copulas = f.copulas();
    r.any(&|n| {
        if !n.tag.is_statement() {
            return false;
        }
        let Some(y) = crate::emit::copula(f, n.tag).chars().next() else { return false };
        // the operand that is printed first: the subject - or, for a symmetric statement, either operand
        // (the order in which the operands of a symmetric statement are printed carries no meaning, so a
        // formatter may print either one first)
        let firsts: &[usize] = if n.tag.shape() == Shape::SymPair { &[0, 1] } else { &[0] };
        firsts.iter().any(|&i| {
            let k = &n.kids[i];
            if !k.tag.is_atom() {
                return false;
            }
            let Some(x) = k.name.chars().last() else { return false };
            let xy: String = [x, y].iter().collect();
            copulas.iter().any(|c| *c == xy)
        })
    })
}

/// name of the atom whose text comes first in the formatted term, if that atom is a bare word
pub fn leading_word(r: &R) -> Option<&str> {
    match r.tag {
        Tag::Word => Some(r.name.as_str()),
        _ => None,
    }
}

/// a bare word whose text ends in a Han stamp form (过去 / 现在 / 将来 / 发生在<digits>) or truth form
/// (真<numbers>值)
pub fn han_item_lookalike_suffix(name: &str) -> bool {
    for k in ["过去", "现在", "将来"] {
        // the word may also BE the stamp form: the lexical parser then segments the whole word away
        if name.ends_with(k) {
            return true;
        }
    }
    let cs: Vec<char> = name.chars().collect();
    // 发生在 + [0-9+-]*
    let mut i = cs.len();
    while i > 0 && (cs[i - 1].is_ascii_digit() || cs[i - 1] == '+' || cs[i - 1] == '-') {
        i -= 1;
    }
    if i >= 3 && cs[i - 3..i] == ['发', '生', '在'] {
        return true;
    }
    // 真 + [0-9.、]* + 值
    if cs.last() == Some(&'值') {
        let mut j = cs.len() - 1;
        while j > 0 && (cs[j - 1].is_ascii_digit() || cs[j - 1] == '.' || cs[j - 1] == '、') {
            j -= 1;
        }
        if j > 0 && cs[j - 1] == '真' {
            return true;
        }
    }
    false
}

/// `预 [0-9.、]* 算 …`
pub fn han_budget_lookalike(name: &str) -> bool {
    let mut cs = name.chars();
    if cs.next() != Some('预') {
        return false;
    }
    for c in cs {
        if c == '算' {
            return true;
        }
        if !(c.is_ascii_digit() || c == '.' || c == '、') {
            return false;
        }
    }
    false
}

/// The texts all public formatting routes print for a value, without repetitions (the first is `format_narsese`'s):
/// `format_narsese`, the per-kind method, the generic `format` entry point and the `FormatTo` trait, each on the
/// wrapped and on the bare value. The routes need not print the same text - a route may, say, print the members
/// of a set in a different order - but EVERY text is "the formatted value" of the property and is checked.
pub fn format_routes(f: &F, n: &Narsese) -> Vec<String> {
    use narsese::api::FormatTo;
    let mut out = vec![f.e.format_narsese(n)];
    let mut add = |s: String| {
        if !out.contains(&s) {
            out.push(s);
        }
    };
    add(f.e.format(n));
    add(n.format_to(f.e));
    match n {
        Narsese::Term(t) => {
            add(f.e.format_term(t));
            add(t.format_to(f.e));
            add(f.e.format(t));
        }
        Narsese::Sentence(x) => {
            add(f.e.format_sentence(x));
            add(x.format_to(f.e));
            add(f.e.format(x));
        }
        Narsese::Task(t) => {
            add(f.e.format_task(t));
            add(t.format_to(f.e));
            add(f.e.format(t));
        }
    }
    out
}

/// the text `format_narsese` prints (kept for callers that need one text)
pub fn format_all_routes(f: &F, n: &Narsese) -> Result<String, String> {
    Ok(f.e.format_narsese(n))
}

pub fn check_built(f: &F, expect: &CV, n: &Narsese) -> Result<String, String> {
    let texts = format_routes(f, n);
    for s in &texts {
        match f.e.parse::<Narsese>(s) {
            Err(e) => return Err(format!("parse of the formatted text {s:?} failed: {e}")),
            Ok(p) => {
                let got = cv_of(&p);
                if &got != expect {
                    return Err(format!("formatted text {s:?} parses to {} instead of {}", show_cv(&got), show_cv(expect)));
                }
            }
        }
    }
    Ok(texts.into_iter().next().unwrap_or_default())
}

pub fn case(f: &F, v: &V) -> Result<String, String> {
    let f = *f;
    let v = v.clone();
    // a constructor that refuses a placeholder among an image's own components (KF-1's shape) is
    // not a violation of this property: such a value is then simply not constructible
    if v.term.has_any_placeholder_component_in_image() {
        let v2 = v.clone();
        if quiet_catch(move || v2.build()).is_err() {
            return Ok("<not constructible>".to_string());
        }
    }
    match quiet_catch(move || {
        let n = v.build();
        check_built(&f, &v.canon(), &n)
    }) {
        Ok(r) => r,
        Err(p) => Err(format!("panic: {p}")),
    }
}

pub fn case_json(f: &F, v: &V) -> J {
    json!({"op": "enum_roundtrip", "format": f.name, "value": v.to_json()})
}

pub fn replay_case(case_j: &J) -> Result<(), String> {
    let f = fmts::by_name(case_j["format"].as_str().unwrap_or("ascii"));
    let v = V::from_json(&case_j["value"]);
    case(&f, &v).map(|_| ())
}

pub fn run(run: &Run) {
    run.rule(
        "every value of U_term (atoms, every constructor over an 8-atom pool at arity<=3 incl. \
         duplicates and all insertion orders, every constructor over 33 representatives at \
         arity<=2/3, towers) and U_sent (tops x 4 punctuations x 9 stamps x 8 truths x 7 budgets), \
         x 3 formats: format (3 routes) then parse, compare canonical forms; distinct = distinct \
         canonical values per format that are not bare atoms",
    );
    run.assume("canonical form computed by matching on public enum variants (never Term::eq)");
    run.assume("names limited to the per-format alphabet N_F; nesting <= 3 except towers");
    let tier = run.tier;
    for f in fmts::all() {
        let mut terms = u::u_term(&f, tier);
        terms.extend(u::huge_terms(4097).into_iter().filter(|r| r.size() > 1000 && !(r.tag == Tag::Product && r.kids.len() == 600) || r.name.len() > 1000 || r.kids.iter().any(|k| k.name.len() > 1000))); // the part u_term leaves out
        terms.extend(u::cp_name_terms(&f, tier)); // one name per identifier code point
        let mut vals: Vec<V> = terms.into_iter().map(V::term).collect();
        vals.extend(u::u_sent(&f));
        if f.name == "han" {
            vals.extend(u::han_collide_values());
        }
        vals.extend(u::float_family());
        run.count(&format!("values_{}", f.name), vals.len() as u64);
        // distinct canonical, non-atom
        let distinct: std::collections::HashSet<CV> = vals
            .par_iter()
            .filter(|v| !(v.kind() == Kind::Term && v.term.tag.is_atom()))
            .map(|v| v.canon())
            .collect();
        run.add_distinct(distinct.len() as u64);
        drop(distinct);
        if let Some(v) = vals.iter().find(|v| v.kind() == Kind::Task && v.term.kids.len() == 2) {
            if let Ok(s) = case(&f, v) {
                run.sample(json!({"format": f.name, "value": v.show(), "text": s}));
            }
        }
        // agreement of the harness' reference formatter with the library's (evidence, not a verdict)
        let agree: u64 = vals
            .par_iter()
            .map(|v| {
                let _w = crate::watch::enter_with(|| v.show());
                let r = quiet_catch(std::panic::AssertUnwindSafe(|| {
                    let n = v.build();
                    let lib = f.e.format_narsese(&n);
                    let term_in_iteration_order = match &n {
                        Narsese::Term(t) => R::of_term(t),
                        Narsese::Sentence(s) => R::of_term(narsese::api::GetTerm::get_term(s)),
                        Narsese::Task(t) => R::of_term(narsese::api::GetTerm::get_term(t)),
                    };
                    let v2 = V { term: term_in_iteration_order, ..v.clone() };
                    crate::emit::strip_ws(&crate::emit::join(&crate::emit::value(&f, &v2), "")) == crate::emit::strip_ws(&lib)
                }));
                matches!(r, Ok(true)) as u64
            })
            .sum();
        run.count(&format!("reference_formatter_agrees_{}", f.name), agree);
        run.count(&format!("reference_formatter_disagrees_{}", f.name), vals.len() as u64 - agree);
        vals.par_iter().for_each(|v| {
            let _w = crate::watch::enter(&v.show());
            run.eval(1);
            if let Err(msg) = crate::watch::case(&v.show(), || case(&f, v)) {
                run.violation(
                    &format!("[{}] {} : {}", f.name, v.show(), msg),
                    case_json(&f, v),
                    &features(&f, v),
                );
            }
        });

        // E3: every unordered constructor over the pool, under every iteration order of its set,
        // and one level of nesting (set of sets) under every combination of orders.
        let pool = u::pool(&f);
        let mut fam: Vec<R> = vec![];
        for &tag in COMPOUND_TAGS.iter().filter(|t| t.shape() == Shape::Set) {
            for s in u::sequences(&pool[..4], 2, 3) {
                fam.push(R::node(tag, s));
            }
        }
        let inner = [
            R::node(Tag::SetExt, vec![pool[0].clone(), pool[2].clone()]),
            R::node(Tag::Conj, vec![pool[0].clone(), pool[3].clone(), pool[4].clone()]),
            R::pair(Tag::Sim, pool[0].clone(), pool[1].clone()),
        ];
        if tier == Tier::Thorough || true {
            for &tag in COMPOUND_TAGS.iter().filter(|t| t.shape() == Shape::Set) {
                for a in &inner {
                    for b in &inner {
                        fam.push(R::node(tag, vec![a.clone(), b.clone(), pool[5].clone()]));
                    }
                }
            }
        }
        let max_keys = tier.pick(64, 192);
        run.bound("order_keys_tried_per_set", json!(max_keys));
        let envs = std::sync::atomic::AtomicU64::new(0);
        fam.par_iter().for_each(|r| {
            let _w = crate::watch::enter(&r.show());
            let v = V::term(r.clone());
            let expect = v.canon();
            let make = || r.build();
            let st = env::explore(
                &make,
                &|t| R::of_term(t),
                max_keys,
                &mut |script, t| {
                    run.eval(1);
                    let n = Narsese::Term(t);
                    let fcopy = f;
                    let e2 = expect.clone();
                    let res = quiet_catch(std::panic::AssertUnwindSafe(|| check_built(&fcopy, &e2, &n)));
                    let res = match res { Ok(r) => r, Err(p) => Err(format!("panic: {p}")) };
                    if let Err(msg) = res {
                        let mut cj = case_json(&f, &v);
                        cj["seed_script"] = json!(script);
                        run.violation(
                            &format!("[{}] {} under seed script {:?}: {}", f.name, v.show(), script, msg),
                            cj,
                            &features(&f, &v),
                        );
                    }
                },
            );
            envs.fetch_add(st.environments, std::sync::atomic::Ordering::Relaxed);
        });
        run.count(
            &format!("order_environments_{}", f.name),
            envs.load(std::sync::atomic::Ordering::Relaxed),
        );
    }
    run.bound("term_arity_max", json!(3));
    run.bound("tower_depth", json!(tier.pick(8, 64)));
}
