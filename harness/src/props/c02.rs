//! C02 - lexical format -> parse round trip.

use crate::fmts::{self, F};
use crate::lexu;
use crate::report::{quiet_catch, Run, Tier};
use narsese::lexical::{Narsese as LN, Term as LTerm};
use rayon::prelude::*;
use serde_json::{json, Value as J};

pub fn term_of(n: &LN) -> &LTerm {
    match n {
        LN::Term(t) => t,
        LN::Sentence(s) => &s.term,
        LN::Task(t) => &t.sentence.term,
    }
}

pub fn features(n: &LN) -> Vec<String> {
    let mut fs = vec![];
    if lexu::contains_empty(term_of(n)) {
        fs.push("empty-lexical-compound-or-set".to_string());
    }
    fs
}

/// The texts all public formatting routes print for a lexical value, without repetitions (the first is
/// `format_narsese`'s): the per-kind method, the generic `format` entry point and the `FormatTo` trait on the bare
/// value and on the wrapper. Every one of them is "the formatted value" and is checked.
pub fn format_routes(f: &F, x2: &LN) -> Vec<String> {
    use narsese::api::FormatTo;
    let mut out = vec![f.l.format_narsese(x2)];
    let mut add = |s: String| {
        if !out.contains(&s) {
            out.push(s);
        }
    };
    add(f.l.format(x2));
    add(x2.format_to(f.l));
    match x2 {
        LN::Term(t) => {
            add(f.l.format_term(t));
            add(f.l.format(t));
            add(t.format_to(f.l));
        }
        LN::Sentence(s) => {
            add(f.l.format_sentence(s));
            add(f.l.format(s));
            add(s.format_to(f.l));
        }
        LN::Task(t) => {
            add(f.l.format_task(t));
            add(f.l.format(t));
            add(t.format_to(f.l));
        }
    }
    out
}

pub fn case(f: &F, x: &LN) -> Result<String, String> {
    let f = *f;
    let x2 = x.clone();
    match quiet_catch(std::panic::AssertUnwindSafe(move || {
        let texts = format_routes(&f, &x2);
        for s in &texts {
            match f.l.parse(s) {
                Err(e) => return Err(format!("parse of the formatted text {s:?} failed: {e}")),
                Ok(y) => {
                    if y != x2 {
                        return Err(format!("formatted text {s:?} parses to {y:?} instead of {x2:?}"));
                    }
                }
            }
        }
        Ok(texts.into_iter().next().unwrap_or_default())
    })) {
        Ok(r) => r,
        Err(p) => Err(format!("panic: {p}")),
    }
}

// ---- JSON for replay -------------------------------------------------------------------------
pub fn lterm_to_json(t: &LTerm) -> J {
    match t {
        LTerm::Atom { prefix, name } => json!({"atom": [prefix, name]}),
        LTerm::Compound { connecter, terms } => json!({"compound": connecter, "terms": terms.iter().map(lterm_to_json).collect::<Vec<_>>()}),
        LTerm::Set { left_bracket, terms, right_bracket } => json!({"set": [left_bracket, right_bracket], "terms": terms.iter().map(lterm_to_json).collect::<Vec<_>>()}),
        LTerm::Statement { copula, subject, predicate } => json!({"statement": copula, "subject": lterm_to_json(subject), "predicate": lterm_to_json(predicate)}),
    }
}
pub fn lterm_from_json(j: &J) -> LTerm {
    let terms = |j: &J| j["terms"].as_array().map(|a| a.iter().map(lterm_from_json).collect::<Vec<_>>()).unwrap_or_default();
    let st = |j: &J| j.as_str().unwrap_or("").to_string();
    if let Some(a) = j.get("atom") {
        LTerm::Atom { prefix: st(&a[0]), name: st(&a[1]) }
    } else if let Some(c) = j.get("compound") {
        LTerm::Compound { connecter: st(c), terms: terms(j) }
    } else if let Some(b) = j.get("set") {
        LTerm::Set { left_bracket: st(&b[0]), terms: terms(j), right_bracket: st(&b[1]) }
    } else {
        LTerm::Statement { copula: st(&j["statement"]), subject: Box::new(lterm_from_json(&j["subject"])), predicate: Box::new(lterm_from_json(&j["predicate"])) }
    }
}
pub fn ln_to_json(n: &LN) -> J {
    let sv = |v: &Vec<String>| json!(v);
    match n {
        LN::Term(t) => json!({"kind": "term", "term": lterm_to_json(t)}),
        LN::Sentence(s) => json!({"kind": "sentence", "term": lterm_to_json(&s.term), "punctuation": s.punctuation, "stamp": s.stamp, "truth": sv(&s.truth)}),
        LN::Task(t) => json!({"kind": "task", "term": lterm_to_json(&t.sentence.term), "punctuation": t.sentence.punctuation, "stamp": t.sentence.stamp, "truth": sv(&t.sentence.truth), "budget": sv(&t.budget)}),
    }
}
pub fn ln_from_json(j: &J) -> LN {
    let sv = |j: &J| j.as_array().map(|a| a.iter().map(|s| s.as_str().unwrap_or("").to_string()).collect::<Vec<_>>()).unwrap_or_default();
    let term = lterm_from_json(&j["term"]);
    let sentence = || narsese::lexical::Sentence {
        term: term.clone(),
        punctuation: j["punctuation"].as_str().unwrap_or("").to_string(),
        stamp: j["stamp"].as_str().unwrap_or("").to_string(),
        truth: sv(&j["truth"]),
    };
    match j["kind"].as_str() {
        Some("sentence") => LN::Sentence(sentence()),
        Some("task") => LN::Task(narsese::lexical::Task { budget: sv(&j["budget"]), sentence: sentence() }),
        _ => LN::Term(term),
    }
}

pub fn case_json(f: &F, x: &LN) -> J {
    json!({"op": "lexical_roundtrip", "format": f.name, "value": ln_to_json(x)})
}
pub fn replay_case(c: &J) -> Result<(), String> {
    let f = fmts::by_name(c["format"].as_str().unwrap_or("ascii"));
    case(&f, &ln_from_json(&c["value"])).map(|_| ())
}

pub fn run(run: &Run) {
    run.rule(
        "every lexical value of a finite universe built from the format's own vocabulary (7 prefixes x \
         names, 12 connecters x component lists of length 0..3 in ANY connecter/arity combination, 2 \
         set bracket pairs x 0..3, 13 copulas, one-hole nesting over 27 representatives; sentences / \
         tasks over tops x 4 punctuations x 7 stamp strings x truths of 0,1,2,3 entries x budgets \
         absent/0/1/3/4 entries) x 3 lexical formats: format then parse, derived == on the lexical \
         tree; distinct = distinct values that are not bare atoms",
    );
    run.assume("structural == derived on lexical types is trusted (plain String/Vec fields)");
    let thorough = run.tier == Tier::Thorough;
    for f in fmts::all() {
        let mut vals: Vec<LN> = lexu::u_term(&f, 0, thorough).into_iter().map(LN::Term).collect();
        vals.extend(lexu::u_sent(&f));
        // one name per identifier code point, as a bare word and as the predicate of a statement
        for c in crate::universe::name_code_points(&f, run.tier) {
            let w = lexu::atom("", &crate::universe::cp_name(c));
            vals.push(LN::Term(LTerm::Statement { copula: f.e.statement.copula_inheritance.to_string(), subject: Box::new(lexu::atom("", "a")), predicate: Box::new(w.clone()) }));
            vals.push(LN::Term(w));
        }
        let distinct: std::collections::HashSet<&LN> = vals.iter().filter(|v| !matches!(v, LN::Term(LTerm::Atom { .. }))).collect();
        run.add_distinct(distinct.len() as u64);
        drop(distinct);
        run.count(&format!("values_{}", f.name), vals.len() as u64);
        if let Some(v) = vals.iter().rev().find(|v| matches!(v, LN::Task(_))) {
            if let Ok(s) = case(&f, v) {
                run.sample(json!({"format": f.name, "text": s, "value": ln_to_json(v)}));
            }
        }
        vals.par_iter().for_each(|x| {
            let _w = crate::watch::enter(&format!("{x:?}"));
            run.eval(1);
            if let Err(msg) = crate::watch::case("lexical value", || case(&f, x)) {
                run.violation(&format!("[{}] {}", f.name, msg), case_json(&f, x), &features(x));
            }
        });
    }
}
