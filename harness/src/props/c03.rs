//! C03 - direct enum parsing and lexical parsing + folding give the same value; the enum and
//! lexical format instances of the same name describe the same vocabulary.

use crate::emit;
use crate::fmts::{self, F};
use crate::model::*;
use crate::ops;
use crate::props::c01;
use crate::report::Run;
use crate::universe as u;
use nar_dev_utils::{PrefixMatch, SuffixMatch};
use rayon::prelude::*;
use serde_json::{json, Value as J};
use std::collections::BTreeSet;

/// features of the input string's source value, for known findings
pub fn features(f: &F, v: Option<&V>, s: &str) -> Vec<String> {
    let mut fs = vec![];
    if let Some(v) = v {
        fs.extend(c01::features(f, v).into_iter().filter(|x| x != "image-placeholder-component-before-index"));
    }
    let _ = s;
    fs
}

/// The oracle: both pipelines succeed on `s` and agree (and, when given, equal `expect`).
pub fn case(f: &F, s: &str, expect: Option<&CV>) -> Result<(), String> {
    let e = ops::parse_enum(f, s);
    let l = ops::lex_then_fold(f, s);
    match (&e, &l) {
        (Ok(a), Ok(b)) => {
            let (ca, cb) = (cv_of(a), cv_of(b));
            if ca != cb {
                return Err(format!(
                    "{s:?}: enum parser gives {} but lexical parse + fold gives {}",
                    show_cv(&ca),
                    show_cv(&cb)
                ));
            }
            if let Some(x) = expect {
                if &ca != x {
                    return Err(format!(
                        "{s:?}: both pipelines give {} but the documented meaning is {}",
                        show_cv(&ca),
                        show_cv(x)
                    ));
                }
            }
            Ok(())
        }
        (Err(a), Ok(_)) => Err(format!("{s:?}: enum parser fails ({a}) while lexical parse + fold succeeds")),
        (Ok(_), Err(b)) => Err(format!("{s:?}: enum parser succeeds while lexical pipeline fails ({b})")),
        (Err(a), Err(b)) => Err(format!("{s:?}: both pipelines fail: enum: {a}; lexical: {b}")),
    }
}

pub fn case_json(f: &F, s: &str, expect: Option<&V>) -> J {
    json!({"op": "pipelines_agree", "format": f.name, "input": s,
           "expect": expect.map(|v| v.to_json())})
}

pub fn replay_case(c: &J) -> Result<(), String> {
    match c["op"].as_str().unwrap_or("") {
        "vocab_table" => {
            let f = fmts::by_name(c["format"].as_str().unwrap_or("ascii"));
            let bad = vocab_mismatches(&f);
            if bad.is_empty() { Ok(()) } else { Err(bad.join("; ")) }
        }
        _ => {
            let f = fmts::by_name(c["format"].as_str().unwrap_or("ascii"));
            let s = c["input"].as_str().unwrap_or("");
            let expect = if c["expect"].is_null() { None } else { Some(V::from_json(&c["expect"]).canon()) };
            case(&f, s, expect.as_ref())
        }
    }
}

fn set_of<'a>(it: impl Iterator<Item = &'a str>) -> BTreeSet<String> {
    it.map(|s| s.to_string()).collect()
}

/// Static comparison of the enum and lexical format instances of the same name.
pub fn vocab_mismatches(f: &F) -> Vec<String> {
    let mut bad = vec![];
    // single-valued entries must be equal; for the dictionaries (several spellings per category) every
    // keyword of the enum format must be known to the lexical format - a further spelling that only the
    // lexical dictionary lists (a legacy alias it still reads) is not a different vocabulary "for every
    // constructor": the enum side neither prints nor accepts it, so no well-formed string contains it
    let mut cmp = |what: &str, a: BTreeSet<String>, b: BTreeSet<String>| {
        let dictionary = matches!(what, "atom prefixes" | "connecters" | "copulas" | "punctuations" | "set brackets" | "stamp forms");
        let ok = if dictionary { a.is_subset(&b) } else { a == b };
        if !ok {
            bad.push(format!("{what}: enum format has {a:?}, lexical format has {b:?}"));
        }
    };
    let (e, l) = (f.e, f.l);
    cmp("atom prefixes", set_of(f.atom_prefixes().into_iter()), set_of(l.atom.prefixes.iter_x_fixes().map(|s| s.as_str())));
    cmp("connecters", set_of(f.connecters().into_iter()), set_of(l.compound.connecters.iter_x_fixes().map(|s| s.as_str())));
    cmp("copulas", set_of(f.copulas().into_iter()), set_of(l.statement.copulas.iter_x_fixes().map(|s| s.as_str())));
    cmp("punctuations", set_of(f.punctuations().into_iter()), set_of(l.sentence.punctuations.iter_x_fixes().map(|s| s.as_str())));
    let pair = |a: &str, b: &str| format!("{a}\u{1}{b}");
    let mut lex_sets: BTreeSet<String> = l.compound.set_brackets.prefix_terms().map(|(a, b)| pair(a, b)).collect();
    lex_sets.remove(&pair("", "")); // the dictionary always carries an empty sentinel pair
    cmp(
        "set brackets",
        [pair(e.compound.brackets_set_extension.0, e.compound.brackets_set_extension.1),
         pair(e.compound.brackets_set_intension.0, e.compound.brackets_set_intension.1)].into_iter().collect(),
        lex_sets,
    );
    let one = |s: String| -> BTreeSet<String> { [s].into_iter().collect() };
    cmp("compound brackets", one(pair(e.compound.brackets.0, e.compound.brackets.1)), one(pair(&l.compound.brackets.0, &l.compound.brackets.1)));
    cmp("compound separator", one(e.compound.separator.to_string()), one(l.compound.separator.clone()));
    cmp("statement brackets", one(pair(e.statement.brackets.0, e.statement.brackets.1)), one(pair(&l.statement.brackets.0, &l.statement.brackets.1)));
    cmp("truth brackets", one(pair(e.sentence.truth_brackets.0, e.sentence.truth_brackets.1)), one(pair(&l.sentence.truth_brackets.0, &l.sentence.truth_brackets.1)));
    cmp("truth separator", one(e.sentence.truth_separator.to_string()), one(l.sentence.truth_separator.clone()));
    cmp("budget brackets", one(pair(e.task.budget_brackets.0, e.task.budget_brackets.1)), one(pair(&l.task.budget_brackets.0, &l.task.budget_brackets.1)));
    cmp("budget separator", one(e.task.budget_separator.to_string()), one(l.task.budget_separator.clone()));
    let s = &e.sentence;
    let (lb, rb) = s.stamp_brackets;
    let enum_stamps: BTreeSet<String> = [
        pair("", &format!("{lb}{}{rb}", s.stamp_past)),
        pair("", &format!("{lb}{}{rb}", s.stamp_present)),
        pair("", &format!("{lb}{}{rb}", s.stamp_future)),
        pair(&format!("{lb}{}", s.stamp_fixed), rb),
    ].into_iter().collect();
    let lex_stamps: BTreeSet<String> = l.sentence.stamp_brackets.suffix_terms().map(|(a, b)| pair(a, b)).collect();
    cmp("stamp forms", enum_stamps, lex_stamps);
    bad
}

/// `<S c P>` written with a derived copula, as tokens
fn sugar_tokens(f: &F, s: &R, cop: &str, p: &R) -> Vec<String> {
    let mut t = vec![f.e.statement.brackets.0.to_string()];
    emit::term(f, s, &mut t);
    t.push(cop.to_string());
    emit::term(f, p, &mut t);
    t.push(f.e.statement.brackets.1.to_string());
    t
}

/// wrap a term given as tokens + recipe into one-hole contexts
fn contexts(f: &F, toks: &[String], r: &R) -> Vec<(Vec<String>, R)> {
    let mut out = vec![(toks.to_vec(), r.clone())];
    let a = R::word("a");
    let c = &f.e.compound;
    let mk = |pre: Vec<&str>, post: Vec<&str>, rr: R| {
        let mut t: Vec<String> = pre.iter().map(|s| s.to_string()).collect();
        t.extend(toks.iter().cloned());
        t.extend(post.iter().map(|s| s.to_string()));
        (t, rr)
    };
    let at = emit::term_toks(f, &a);
    let a0 = at[0].as_str();
    out.push(mk(vec![c.brackets.0, c.connecter_negation, c.separator], vec![c.brackets.1], R::node(Tag::Neg, vec![r.clone()])));
    out.push(mk(vec![c.brackets.0, c.connecter_product, c.separator, a0, c.separator], vec![c.brackets.1], R::node(Tag::Product, vec![a.clone(), r.clone()])));
    out.push(mk(vec![c.brackets_set_extension.0], vec![c.brackets_set_extension.1], R::node(Tag::SetExt, vec![r.clone()])));
    out.push(mk(vec![f.e.statement.brackets.0], vec![f.e.statement.copula_implication, a0, f.e.statement.brackets.1], R::pair(Tag::Impl, r.clone(), a.clone())));
    out.push(mk(vec![f.e.statement.brackets.0, a0, f.e.statement.copula_equivalence_predictive], vec![f.e.statement.brackets.1], R::pair(Tag::EquivPred, a.clone(), r.clone())));
    out
}

pub fn run(run: &Run) {
    run.rule(
        "(a) every string the enum formatter emits for U_term u U_sent, (b) every <S c P> with c a \
         derived copula (instance, property, instance-property, retrospective equivalence) over \
         S,P in atoms u representatives, bare and inside 5 one-hole contexts, x 3 formats: enum \
         parse vs lexical parse + fold, both Ok and canonically equal (and equal to the documented \
         desugaring for (b)); (c) enum vs lexical vocabulary tables category by category; distinct = \
         distinct input strings",
    );
    run.assume("canonical form by variant matching; derived-copula expectations built from raw variants");
    let tier = run.tier;
    for f in fmts::all() {
        // (c) tables
        run.eval(1);
        let bad = vocab_mismatches(&f);
        if !bad.is_empty() {
            run.violation(
                &format!("[{}] enum and lexical format instances differ: {}", f.name, bad.join("; ")),
                json!({"op": "vocab_table", "format": f.name, "mismatches": bad}),
                &[],
            );
        }
        // (a)
        let mut terms = u::u_term(&f, tier);
        terms.extend(u::cp_name_terms(&f, tier)); // one name per identifier code point
        let mut vals: Vec<V> = terms.into_iter().map(V::term).collect();
        vals.extend(u::u_sent(&f));
        if f.name == "han" {
            vals.extend(u::han_collide_values());
        }
        let strings: Vec<(String, &V)> = vals
            .par_iter()
            .filter_map(|v| {
                // a value the constructors refuse (or the formatter cannot print) yields no string
                let v2 = v.clone();
                let _w = crate::watch::enter_with(|| v.show());
                crate::report::quiet_catch(std::panic::AssertUnwindSafe(move || f.e.format_narsese(&v2.build()))).ok().map(|s| (s, v))
            })
            .collect();
        let distinct: std::collections::HashSet<&str> = strings.iter().map(|(s, _)| s.as_str()).collect();
        run.add_distinct(distinct.len() as u64);
        drop(distinct);
        run.sample(json!({"format": f.name, "input": strings[strings.len() / 2].0}));
        strings.par_iter().for_each(|(s, v)| {
            run.eval(1);
            if let Err(msg) = crate::watch::case(s, || case(&f, s, None)) {
                run.violation(&format!("[{}] {}", f.name, msg), case_json(&f, s, None), &features(&f, Some(v), s));
            }
        });
        // (a') the same values as written by the reference formatter from the recipe (one blank between
        // tokens), wherever that text differs from the library's: the library's text goes through the
        // constructors, so a constructor that rewrites its arguments never prints the shape it rewrites
        let own: Vec<(String, &V)> = strings
            .par_iter()
            .filter_map(|(s, v)| {
                let mine = emit::join(&emit::value(&f, v), " ");
                if emit::strip_ws(&mine) != emit::strip_ws(s) { Some((mine, *v)) } else { None }
            })
            .collect();
        run.count(&format!("recipe_strings_differing_from_the_formatter_{}", f.name), own.len() as u64);
        own.par_iter().for_each(|(s, v)| {
            run.eval(1);
            if let Err(msg) = crate::watch::case(s, || case(&f, s, None)) {
                run.violation(&format!("[{}] {}", f.name, msg), case_json(&f, s, None), &features(&f, Some(v), s));
            }
        });
        // (b) derived copulas
        let mut ops_: Vec<R> = u::all_atoms(&f);
        ops_.extend(u::reps(&f).into_iter().filter(|r| !r.tag.is_atom()));
        let st = &f.e.statement;
        let mut n_b = 0u64;
        let cases: Vec<(String, V)> = ops_
            .iter()
            .flat_map(|s| ops_.iter().map(move |p| (s.clone(), p.clone())))
            .flat_map(|(s, p)| {
                let derived: Vec<(&str, R)> = vec![
                    (st.copula_instance, R::pair(Tag::Inh, R::node(Tag::SetExt, vec![s.clone()]), p.clone())),
                    (st.copula_property, R::pair(Tag::Inh, s.clone(), R::node(Tag::SetInt, vec![p.clone()]))),
                    (st.copula_instance_property, R::pair(Tag::Inh, R::node(Tag::SetExt, vec![s.clone()]), R::node(Tag::SetInt, vec![p.clone()]))),
                    (st.copula_equivalence_retrospective, R::pair(Tag::EquivPred, p.clone(), s.clone())),
                ];
                let mut out = vec![];
                for (cop, expect) in derived {
                    let toks = sugar_tokens(&f, &s, cop, &p);
                    for (t, r) in contexts(&f, &toks, &expect) {
                        out.push((emit::join(&t, " "), V::term(r.clone())));
                        if s.tag.is_atom() && p.tag.is_atom() {
                            // written without any optional space, as the Han formatter would
                            out.push((emit::join(&t, ""), V::term(r)));
                        }
                    }
                }
                out
            })
            .collect();
        n_b += cases.len() as u64;
        run.add_distinct(cases.len() as u64);
        run.sample(json!({"format": f.name, "derived_copula_input": cases[cases.len() / 3].0, "expect": cases[cases.len() / 3].1.show()}));
        cases.par_iter().for_each(|(s, v)| {
            run.eval(1);
            let expect = v.canon();
            if let Err(msg) = crate::watch::case(s, || case(&f, s, Some(&expect))) {
                let mut fs = features(&f, Some(v), s);
                if f.name == "han" && c01::han_name_ends_with_copula_head(&v.term) {
                    fs.push("han-name-ending-in-first-character-of-a-two-character-copula".into());
                }
                if v.term.has_placeholder_component_in_image() {
                    fs.push("image-placeholder-component-before-index".into());
                }
                run.violation(&format!("[{}] {}", f.name, msg), case_json(&f, s, Some(v)), &fs);
            }
        });
        run.count(&format!("derived_copula_strings_{}", f.name), n_b);
        run.count(&format!("formatter_strings_{}", f.name), strings.len() as u64);
    }
}
