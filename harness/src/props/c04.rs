//! C04 - the enum parser is total: every entry point returns Ok or a displayable Err.

use crate::fmts::{self, F};
use crate::report::{quiet_catch, Run, Tier};
use crate::strings as st;
use narsese::conversion::string::impl_enum::ParseError;
use narsese::enum_narsese::{Budget, Narsese, Punctuation, Stamp, Truth};
use rayon::prelude::*;
use serde_json::{json, Value as J};
use std::collections::BTreeSet;
use std::panic::AssertUnwindSafe;
use std::sync::Mutex;

pub const ENTRIES: [&str; 10] = ["narsese", "chars", "multi1", "multi2", "multi_lines", "truth", "budget", "stamp", "punctuation", "options"];

/// the item-wise result type: `parse::<NarseseOptions<..>>` is a public entry point too (the private alias
/// `MidParseResult` of the parser is this public type)
pub type Options = narsese::api::NarseseOptions<Budget, narsese::enum_narsese::Term, Punctuation, Stamp, Truth>;

fn kind(n: &Narsese) -> &'static str {
    match n {
        Narsese::Term(_) => "Ok(term)",
        Narsese::Sentence(_) => "Ok(sentence)",
        Narsese::Task(_) => "Ok(task)",
    }
}

/// Run one entry point on one input. Ok(outcome class) or Err(panic message).
/// The error, if any, is also rendered (its Display must terminate without panicking).
pub fn run_entry(f: &F, entry: &str, s: &str) -> Result<String, String> {
    let f = *f;
    quiet_catch(AssertUnwindSafe(move || -> String {
        fn cls<T>(r: Result<T, ParseError>, ok: impl Fn(&T) -> String) -> String {
            match r {
                Ok(v) => ok(&v),
                Err(e) => {
                    let shown = e.to_string();
                    let msg = shown.split(" @ ").next().unwrap_or("").to_string();
                    // keep only the message skeleton: drop quoted / numeric detail
                    let skel: String = msg.chars().take_while(|c| *c != '"' && *c != '\n' && *c != '[').collect();
                    format!("Err({})", skel.trim_end())
                }
            }
        }
        match entry {
            "narsese" => cls(f.e.parse::<Narsese>(s), |n| kind(n).to_string()),
            "chars" => cls(f.e.parse_chars::<Narsese>(s.chars().collect()), |n| kind(n).to_string()),
            "multi1" => {
                let mut v = f.e.parse_multi([s]);
                assert_eq!(v.len(), 1, "parse_multi must return one result per input");
                cls(v.pop().unwrap(), |n| kind(n).to_string())
            }
            "multi2" => {
                // the inputs are supplied through an iterator that reports no size at all
                let mut left = 2;
                let v = f.e.parse_multi(std::iter::from_fn(move || {
                    if left > 0 {
                        left -= 1;
                        Some(s)
                    } else {
                        None
                    }
                }));
                assert_eq!(v.len(), 2, "parse_multi must return one result per input");
                let mut out = String::new();
                for r in v {
                    out.push_str(&cls(r, |n| kind(n).to_string()));
                    out.push('|');
                }
                out
            }
            "multi_lines" => {
                // a whole text, one input per line (str::lines reports no upper size bound)
                let n = s.lines().count();
                let v = f.e.parse_multi(s.lines());
                assert_eq!(v.len(), n, "parse_multi must return one result per input");
                let mut out = String::new();
                for r in v.into_iter().take(3) {
                    out.push_str(&cls(r, |n| kind(n).to_string()));
                    out.push('|');
                }
                out
            }
            "truth" => cls(f.e.parse::<Truth>(s), |_| "Ok(truth)".to_string()),
            "budget" => cls(f.e.parse::<Budget>(s), |_| "Ok(budget)".to_string()),
            "stamp" => cls(f.e.parse::<Stamp>(s), |_| "Ok(stamp)".to_string()),
            "punctuation" => cls(f.e.parse::<Punctuation>(s), |_| "Ok(punctuation)".to_string()),
            "options" => cls(f.e.parse::<Options>(s), |_| "Ok(options)".to_string()),
            _ => unreachable!(),
        }
    }))
}

pub fn case(f: &F, entry: &str, s: &str) -> Result<String, String> {
    run_entry(f, entry, s).map_err(|p| format!("entry point {entry} panics on {s:?}: {p}"))
}

pub fn case_json(f: &F, entry: &str, s: &str) -> J {
    json!({"op": "enum_parse_total", "format": f.name, "entry": entry, "input": s})
}

pub fn grid_case(len: usize, index: usize) -> Result<(), String> {
    match quiet_catch(move || {
        let env: Vec<char> = "abcdefghijklmnop".chars().take(len).collect();
        let e = ParseError::new("msg", env, index);
        e.to_string()
    }) {
        Ok(_) => Ok(()),
        Err(p) => Err(format!("ParseError::new(msg, env of {len} chars, index {index}) + Display panics: {p}")),
    }
}

pub fn replay_case(c: &J) -> Result<(), String> {
    match c["op"].as_str() {
        Some("parse_error_grid") => grid_case(c["len"].as_u64().unwrap_or(0) as usize, c["index"].as_u64().unwrap_or(0) as usize),
        _ => {
            let f = fmts::by_name(c["format"].as_str().unwrap_or("ascii"));
            case(&f, c["entry"].as_str().unwrap_or("narsese"), c["input"].as_str().unwrap_or("")).map(|_| ())
        }
    }
}

pub struct Sweep<'a> {
    pub run: &'a Run,
    pub outcomes: Mutex<BTreeSet<String>>,
}

impl<'a> Sweep<'a> {
    pub fn one(&self, f: &F, s: &str) {
        for entry in ENTRIES {
            self.run.eval(1);
            match crate::watch::tagged(f.name, s, || case(f, entry, s)) {
                Ok(o) => {
                    let mut g = self.outcomes.lock().unwrap();
                    if g.len() < 400 && !g.contains(&o) {
                        g.insert(o);
                    }
                }
                Err(msg) => self.run.violation(&format!("[{}] {}", f.name, msg), case_json(f, entry, s), &[]),
            }
        }
    }
}

/// iterate the string spaces G1 u G2 u G3 of one format, calling `visit` on every string (in
/// parallel on `pool`)
pub fn for_each_string(run: &Run, f: &F, pool: &rayon::ThreadPool, visit: &(dyn Fn(&str) + Sync)) {
    let tier = run.tier;
    let sigma = st::sigma(f);
    let l = tier.pick(3usize, 4usize);
    let total = st::g1_count(sigma.len(), l);
    run.bound(&format!("sigma_{}", f.name), json!(sigma.len()));
    run.bound("g1_max_tokens", json!(l));
    run.count(&format!("g1_strings_{}", f.name), total);
    pool.install(|| {
        (0..total).into_par_iter().for_each(|i| {
            let s = st::g1_nth(&sigma, l, i);
            visit(&s);
        });
    });
    // G5: structural alphabet, longer strings
    let ssig = st::structural_sigma(f);
    let l5 = tier.pick(4usize, 5usize);
    let total5 = st::g1_count(ssig.len(), l5);
    run.bound(&format!("structural_sigma_{}", f.name), json!(ssig.len()));
    run.bound("g5_max_tokens", json!(l5));
    run.count(&format!("g5_strings_{}", f.name), total5);
    pool.install(|| {
        (0..total5).into_par_iter().for_each(|i| {
            let s = st::g1_nth(&ssig, l5, i);
            visit(&s);
        });
    });
    let bases = st::bases(f, tier == Tier::Thorough);
    run.count(&format!("g2_bases_{}", f.name), bases.len() as u64);
    let n2 = std::sync::atomic::AtomicU64::new(0);
    pool.install(|| {
        bases.par_iter().for_each(|b| {
            let mut m = vec![];
            for sep in ["", " "] {
                st::mutants1(b, &sigma, sep, &mut m);
            }
            if tier == Tier::Thorough && b.len() <= 24 {
                st::mutants2_trunc(b, &sigma, "", &mut m);
            }
            n2.fetch_add(m.len() as u64, std::sync::atomic::Ordering::Relaxed);
            for s in &m {
                if s.chars().count() <= 512 {
                    visit(s);
                }
            }
        });
    });
    run.count(&format!("g2_mutants_{}", f.name), n2.load(std::sync::atomic::Ordering::Relaxed));
    run.bound("g2_deviations", json!(tier.pick("1", "1, plus truncation o one edit for bases of <= 24 tokens")));
    let g3 = st::g3(f, &sigma);
    run.count(&format!("g3_strings_{}", f.name), g3.len() as u64);
    pool.install(|| g3.par_iter().for_each(|s| visit(s)));
    let g9 = st::g9_special_pairs(f);
    run.count(&format!("g9_special_pair_strings_{}", f.name), g9.len() as u64);
    pool.install(|| g9.par_iter().for_each(|s| visit(s)));
    let g7 = st::g7_nested_empty(f);
    run.count(&format!("g7_nested_empty_strings_{}", f.name), g7.len() as u64);
    pool.install(|| g7.par_iter().for_each(|s| visit(s)));
    // G8: the well-formed strings themselves - what the reference formatter writes for every value of the
    // quick term universe and a cover of the sentence / task product (written from the recipe, so shapes a
    // constructor would rewrite are present as written)
    {
        let mut vals: Vec<crate::model::V> = crate::universe::u_term(f, Tier::Quick).into_iter().map(crate::model::V::term).collect();
        vals.extend(crate::universe::u_sent_cover(f));
        run.count(&format!("g8_well_formed_strings_{}", f.name), vals.len() as u64);
        pool.install(|| {
            vals.par_iter().for_each(|v| {
                let s = crate::emit::join(&crate::emit::value(f, v), " ");
                if s.chars().count() <= 512 {
                    visit(&s);
                }
            })
        });
    }
    // G6: EVERY code point of a stated range in every position class of a small set of templates
    // (alone, after / before / between name characters, after an atom prefix, as the only element
    // of a set, as subject / predicate next to an unspaced copula, before a punctuation, as a
    // truth number, doubled). Quick: the whole Basic Multilingual Plane, the emoji / symbol block
    // U+1F000..U+1FAFF, the tag / variation-selector block U+E0000..U+E01FF, every 64th other
    // supplementary code point and the last 16; thorough: all 1 112 064 Unicode scalar values.
    let cps: Vec<char> = match tier {
        Tier::Quick => (0u32..=0x10ffff)
            .filter(|c| *c <= 0xffff || (0x1f000..=0x1faff).contains(c) || (0xe0000..=0xe01ff).contains(c) || c % 64 == 0 || *c >= 0x10fff0)
            .filter_map(char::from_u32)
            .collect(),
        Tier::Thorough => (0u32..=0x10ffff).filter_map(char::from_u32).collect(),
    };
    let templates = st::code_point_templates(f, tier == Tier::Thorough);
    run.bound("g6_code_points", json!(cps.len()));
    run.bound("g6_templates", json!(templates.iter().map(|(a, b)| format!("{a}X{b}")).collect::<Vec<_>>()));
    run.count(&format!("g6_strings_{}", f.name), (cps.len() * templates.len() + cps.len()) as u64);
    pool.install(|| {
        cps.par_iter().for_each(|c| {
            let mut s = String::new();
            for (pre, post) in &templates {
                s.clear();
                s.push_str(pre);
                s.push(*c);
                s.push_str(post);
                visit(&s);
            }
            s.clear();
            s.push(*c);
            s.push(*c);
            visit(&s);
        });
    });
}

pub fn small_stack_pool() -> rayon::ThreadPool {
    rayon::ThreadPoolBuilder::new().stack_size(2 << 20).build().expect("thread pool")
}

pub fn run(run: &Run) {
    run.rule(
        "G5: every token string of length <= 4 (5 thorough) over a 21-token structural alphabet (one \
         bracket pair of each kind, separator, connecters, copulas, placeholder, atom, number, item \
         brackets); G1: every token string of length <= L over the format's token alphabet (all keywords + 16 \
         literals incl. non-ASCII, combining, emoji); G2: every string at one deviation (truncate, \
         delete, duplicate, replace by / insert any alphabet token, cut inside a token) from ~150 \
         well-formed token lists incl. 8-deep towers, with and without spaces; G3: 512-char \
         repetitions of every token and token pair, bracket towers up to 64 deep terminated / \
         unterminated / over-closed, overlong numbers; each through 9 entry points x 3 formats on 2 \
         MiB stacks; G4: ParseError::new + Display for every (len, index) in 0..=12 x 0..=len+512; \
         distinct = distinct input strings (hashed)",
    );
    run.assume("panics are caught with catch_unwind; a stack overflow or abort would kill the check (machinery exit 2), not pass it");
    run.assume("non-termination = one case running > 20 s (watchdog)");
    // G4 first: decides the slice arithmetic for every reachable cursor position
    let mut grid = 0u64;
    for len in 0..=12usize {
        for index in 0..=(len + 512) {
            grid += 1;
            run.eval(1);
            if let Err(msg) = grid_case(len, index) {
                run.violation(&msg, json!({"op": "parse_error_grid", "len": len, "index": index}), &[]);
            }
        }
    }
    run.count("g4_grid_points", grid);
    let pool = small_stack_pool();
    let sweep = Sweep { run, outcomes: Mutex::new(BTreeSet::new()) };
    let distinct = crate::distinct::Distinct::new();
    for f in fmts::all() {
        for_each_string(run, &f, &pool, &|s| {
            distinct.add(s);
            sweep.one(&f, s);
        });
        run.sample(json!({"format": f.name, "g1_example": st::g1_nth(&st::sigma(&f), 3, 100_000 % st::g1_count(st::sigma(&f).len(), 3))}));
    }
    run.add_distinct(distinct.len());
    let o = sweep.outcomes.lock().unwrap();
    run.extra("distinct_outcome_classes", json!(o.len()));
    run.extra("outcome_classes", json!(o.iter().take(60).collect::<Vec<_>>()));
}
