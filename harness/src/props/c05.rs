//! C05 - the lexical parser and lexical folding are total.

use crate::fmts::{self, F};
use crate::hostile;
use crate::props::c02::{ln_from_json, ln_to_json};
use crate::props::c04;
use crate::report::{quiet_catch, Run, Tier};
use narsese::conversion::inter_type::lexical_fold::TryFoldInto;
use narsese::lexical::Narsese as LN;
use rayon::prelude::*;
use serde_json::{json, Value as J};
use std::panic::AssertUnwindSafe;

pub fn case_parse(f: &F, entry: &str, s: &str) -> Result<bool, String> {
    let f = *f;
    quiet_catch(AssertUnwindSafe(move || match entry {
        "parse_term" => match f.l.parse_term(s) {
            Ok(_) => true,
            Err(e) => {
                let _ = e.to_string();
                false
            }
        },
        _ => match f.l.parse(s) {
            Ok(_) => true,
            Err(e) => {
                let _ = e.to_string();
                false
            }
        },
    }))
    .map_err(|p| format!("lexical {entry} panics on {s:?}: {p}"))
}

pub fn case_fold(f: &F, x: &LN) -> Result<bool, String> {
    let f = *f;
    let x2 = x.clone();
    quiet_catch(AssertUnwindSafe(move || match x2.try_fold_into(f.e) {
        Ok(_) => true,
        Err(e) => {
            let _ = format!("{e:?}");
            false
        }
    }))
    .map_err(|p| format!("fold with the {} format panics on {:?}: {p}", f.name, x))
}

pub fn replay_case(c: &J) -> Result<(), String> {
    let f = fmts::by_name(c["format"].as_str().unwrap_or("ascii"));
    match c["op"].as_str() {
        Some("fold_total") => case_fold(&f, &ln_from_json(&c["value"])).map(|_| ()),
        _ => case_parse(&f, c["entry"].as_str().unwrap_or("parse"), c["input"].as_str().unwrap_or("")).map(|_| ()),
    }
}

pub fn hostile_values(thorough: bool) -> Vec<LN> {
    let mut v: Vec<LN> = hostile::terms(thorough).into_iter().map(LN::Term).collect();
    v.extend(hostile::sentences());
    // plus the regular (vocabulary-consistent) lexical term universes of all three formats: these
    // fold successfully with their own folder - nested multi-component compounds, wide compounds -
    // and are foreign vocabulary for the other two folders
    for f in fmts::all() {
        v.extend(crate::lexu::u_term(&f, 0, false).into_iter().map(LN::Term));
        v.extend(crate::lexu::u_sent(&f).into_iter().step_by(if thorough { 1 } else { 11 }));
    }
    // giants that no text of 512 characters can produce, only a hand-built value: flat compounds of 3 000 and 100 000
    // atoms, and a tower of 64 levels with 60 / 130 components on every level (stack use that grows with width x depth)
    {
        use narsese::lexical::Term as LTerm;
        let atom = |n: &str| LTerm::Atom { prefix: String::new(), name: n.to_string() };
        for n in [3_000usize, 100_000] {
            v.push(LN::Term(LTerm::Compound { connecter: "*".to_string(), terms: (0..n).map(|i| atom(&format!("w{}", i % 1000))).collect() }));
            v.push(LN::Term(LTerm::Set { left_bracket: "{".to_string(), terms: (0..n).map(|i| atom(&format!("w{}", i % 1000))).collect(), right_bracket: "}".to_string() }));
        }
        for (w, d) in [(60usize, 64usize), (130, 32), (130, 64)] {
            let mut t = atom("a");
            for _ in 0..d {
                let mut kids: Vec<LTerm> = (0..w - 1).map(|i| atom(&format!("s{i}"))).collect();
                kids.push(t);
                t = LTerm::Compound { connecter: "*".to_string(), terms: kids };
            }
            v.push(LN::Term(t));
        }
    }
    v
}

pub fn run(run: &Run) {
    run.rule(
        "strings: the same G1 u G2 u G3 spaces as C04 through lexical parse and parse_term x 3 \
         formats on 2 MiB stacks; fold: every lexical value of a hostile universe (every keyword of \
         every category of every format, '' and garbage in every string field; compounds of 0..3 \
         components incl. images with 0/1/2 placeholders; 14 number strings in truth/budget lists of \
         length 0..4; 30 stamp strings) x 3 enum folders; distinct = distinct strings (hashed) + \
         distinct hostile values",
    );
    run.assume("panics are caught with catch_unwind; abort/stack overflow would be a machinery failure, not a pass");
    let pool = c04::small_stack_pool();
    let distinct = crate::distinct::Distinct::new();
    let oks = std::sync::atomic::AtomicU64::new(0);
    for f in fmts::all() {
        c04::for_each_string(run, &f, &pool, &|s| {
            distinct.add(s);
            for entry in ["parse", "parse_term"] {
                run.eval(1);
                match crate::watch::tagged(f.name, s, || case_parse(&f, entry, s)) {
                    Ok(true) => {
                        oks.fetch_add(1, std::sync::atomic::Ordering::Relaxed);
                    }
                    Ok(false) => {}
                    Err(msg) => run.violation(&format!("[{}] {}", f.name, msg), json!({"op": "lexical_parse_total", "format": f.name, "entry": entry, "input": s}), &[]),
                }
            }
        });
    }
    run.count("strings_accepted", oks.load(std::sync::atomic::Ordering::Relaxed));
    let vals = hostile_values(run.tier == Tier::Thorough);
    run.count("hostile_values", vals.len() as u64);
    run.sample(json!({"hostile_value": ln_to_json(&vals[vals.len() / 2])}));
    run.sample(json!({"hostile_value": ln_to_json(&vals[vals.len() - 7])}));
    let fold_ok = std::sync::atomic::AtomicU64::new(0);
    for f in fmts::all() {
        pool.install(|| {
            vals.par_iter().for_each(|x| {
                run.eval(1);
                match crate::watch::tagged(&format!("fold:{}", f.name), &ln_to_json(x).to_string(), || case_fold(&f, x)) {
                    Ok(true) => {
                        fold_ok.fetch_add(1, std::sync::atomic::Ordering::Relaxed);
                    }
                    Ok(false) => {}
                    Err(msg) => run.violation(&msg, json!({"op": "fold_total", "format": f.name, "value": ln_to_json(x)}), &[]),
                }
            });
        });
    }
    run.count("folds_accepted", fold_ok.load(std::sync::atomic::Ordering::Relaxed));
    run.add_distinct(distinct.len() + vals.len() as u64);
}
