//! C06 - term equality is semantic, order-insensitive where NAL says so, and stable.
//! C07 shares the recipe family and the builds (see c07.rs).

use crate::env;
use crate::fmts;
use crate::model::*;
use crate::report::{quiet_catch, Run, Tier};
use crate::universe as u;
use narsese::enum_narsese::{Narsese, Sentence, Stamp, Term, Truth};
use rayon::prelude::*;
use serde_json::{json, Value as J};
use std::collections::HashMap;
use std::panic::AssertUnwindSafe;

#[derive(Clone)]
pub enum Origin {
    /// built through the public constructors from this recipe
    Recipe(R),
    /// parsed from this ASCII text
    Parse(String),
    /// the value of this recipe reached through another construction route (see `route_build`)
    Route(String, R),
}

pub struct Build {
    pub origin: Origin,
    pub script: Vec<u64>,
    pub term: Term,
    /// raw (iteration-order-sensitive) form
    pub raw: R,
    pub canon: R,
    pub class: usize,
}

impl Build {
    pub fn describe(&self) -> String {
        match &self.origin {
            Origin::Recipe(r) => format!("build({}) under seeds {:?} [iteration order {}]", r.show(), self.script, self.raw.show()),
            Origin::Parse(s) => format!("parse({s:?}) under seeds {:?} [iteration order {}]", self.script, self.raw.show()),
            Origin::Route(route, r) => format!("{route}({}) [iteration order {}]", r.show(), self.raw.show()),
        }
    }
    pub fn to_json(&self) -> J {
        match &self.origin {
            Origin::Recipe(r) => json!({"recipe": r.to_json(), "seed_script": self.script, "show": r.show()}),
            Origin::Parse(s) => json!({"parse_ascii": s, "seed_script": self.script}),
            Origin::Route(route, r) => json!({"route": route, "recipe": r.to_json(), "seed_script": self.script, "show": r.show()}),
        }
    }
}

pub fn rebuild(j: &J) -> Term {
    let script: Vec<u64> = j["seed_script"].as_array().map(|a| a.iter().filter_map(|x| x.as_u64()).collect()).unwrap_or_default();
    if let Some(route) = j["route"].as_str() {
        let r = R::from_json(&j["recipe"]);
        return route_build(route, &r).expect("route must build");
    }
    if let Some(s) = j["parse_ascii"].as_str() {
        let f = fmts::ascii();
        let (t, _) = narsese::verif_hooks::with_seed_script(&script, || f.e.parse::<Narsese>(s).unwrap().try_into_term().unwrap());
        t
    } else {
        let r = R::from_json(&j["recipe"]);
        narsese::verif_hooks::with_seed_script(&script, || r.build()).0
    }
}

pub const ROUTES: [&str; 9] = ["constructor", "clone", "clone_of_clone", "parse_ascii", "parse_han", "lexical_fold", "first_then_push_rest", "half_then_push_half", "enum_variants_written_directly"];

/// The value of `r` reached through a construction route other than the plain constructor: a
/// clone (which reallocates its containers at exactly their length), the enum parser and the
/// lexical parser + fold on the formatted text (containers grown element by element), and the
/// constructor on a prefix of the components followed by `push_components`. None if the route
/// does not apply.
pub fn route_build(route: &str, r: &R) -> Option<Term> {
    let base = r.build();
    match route {
        "constructor" => Some(base),
        "clone" => Some(base.clone()),
        "clone_of_clone" => Some(base.clone().clone()),
        // `Term`'s variants are public: the value written as nested variants, no constructor involved
        "enum_variants_written_directly" => Some(r.build_raw()),
        "parse_ascii" | "parse_han" => {
            let f = if route == "parse_ascii" { fmts::ascii() } else { fmts::han() };
            let s = f.e.format_term(&base);
            f.e.parse::<Narsese>(&s).ok()?.try_into_term().ok()
        }
        "lexical_fold" => {
            let f = fmts::ascii();
            let s = f.e.format_term(&base);
            crate::ops::lex_then_fold(&f, &s).ok()?.try_into_term().ok()
        }
        "first_then_push_rest" | "half_then_push_half" => {
            if !matches!(r.tag.shape(), Shape::Set | Shape::Seq | Shape::Image) || r.kids.len() < 2 {
                return None;
            }
            let k = if route == "first_then_push_rest" { 1 } else { r.kids.len() / 2 };
            // an image keeps its placeholder index: build the prefix with an index that fits it
            let mut head = r.clone();
            head.kids.truncate(k);
            if r.tag.shape() == Shape::Image && r.idx > k {
                return None;
            }
            let mut t = head.build();
            t.push_components(r.kids[k..].iter().map(|c| c.build())).ok()?;
            Some(t)
        }
        _ => None,
    }
}

/// recipes of the route family: every variable-arity constructor with 1..=17 components
pub fn route_recipes() -> Vec<R> {
    let mut out = vec![];
    for &tag in COMPOUND_TAGS.iter() {
        for n in [1usize, 2, 3, 4, 5, 6, 7, 8, 9, 10, 12, 15, 16, 17] {
            let elems: Vec<R> = (0..n).map(|i| if i % 3 == 2 { R::atom(Tag::DVar, &format!("v{i}")) } else { R::word(&format!("w{i}")) }).collect();
            match tag.shape() {
                Shape::Set | Shape::Seq => out.push(R::node(tag, elems)),
                Shape::Image => {
                    out.push(R::image(tag, 0, elems.clone()));
                    out.push(R::image(tag, n / 2, elems.clone()));
                    out.push(R::image(tag, n, elems));
                }
                _ => {}
            }
        }
    }
    // statements: every copula over a few operand pairs, BOTH operand orders (a constructor that normalises
    // the operand order of symmetric statements is bypassed by the variant written directly)
    {
        let (a, b) = (R::word("a"), R::word("b"));
        let items = [a.clone(), b.clone(), R::atom(Tag::IVar, "a"), R::interval(5), R::word("5"), R::node(Tag::SetExt, vec![a.clone(), b.clone()]), R::pair(Tag::Sim, b.clone(), a.clone())];
        for &t in STATEMENT_TAGS.iter() {
            for x in &items {
                for y in &items {
                    if x != y {
                        out.push(R::pair(t, x.clone(), y.clone()));
                    }
                }
            }
            out.push(R::node(Tag::SetExt, vec![R::pair(t, a.clone(), b.clone()), R::pair(t, b.clone(), a.clone())]));
        }
        for t in [Tag::DiffExt, Tag::DiffInt] {
            out.push(R::pair(t, a.clone(), b.clone()));
            out.push(R::pair(t, b.clone(), a.clone()));
        }
        out.push(R::node(Tag::Neg, vec![a.clone()]));
    }
    // nested: an ordered compound of 5 / 9 components as an element of a set and as an operand
    for n in [5usize, 9] {
        let elems: Vec<R> = (0..n).map(|i| R::word(&format!("w{i}"))).collect();
        for tag in [Tag::Product, Tag::SeqConj] {
            let inner = R::node(tag, elems.clone());
            out.push(R::node(Tag::SetExt, vec![inner.clone(), R::word("x")]));
            out.push(R::pair(Tag::Sim, inner.clone(), R::word("x")));
            out.push(R::pair(Tag::Inh, R::word("x"), inner));
        }
    }
    out
}

/// The recipe family (insertion order and duplicates explicit).
pub fn family(tier: Tier) -> Vec<R> {
    let a = R::word("a");
    let b = R::word("b");
    let c = R::atom(Tag::IVar, "a"); // same name as `a`, different kind
    let atoms = vec![a.clone(), b.clone(), c.clone()];
    let set_tags: Vec<Tag> = COMPOUND_TAGS.iter().copied().filter(|t| t.shape() == Shape::Set).collect();
    let sym_tags = [Tag::Sim, Tag::Equiv, Tag::EquivConc];
    let mut out: Vec<R> = atoms.clone();
    out.push(R::atom(Tag::DVar, "a"));
    out.push(R::atom(Tag::Operator, "a"));
    // names that differ only in letter case, in every named kind, bare and inside ordered / unordered compounds
    for n in ["left", "Left", "LEFT", "lEFT"] {
        for &k in NAMED_ATOMS.iter() {
            let x = R::atom(k, n);
            out.push(x.clone());
            out.push(R::node(Tag::Product, vec![x.clone(), a.clone()]));
            out.push(R::node(Tag::SetExt, vec![x.clone(), a.clone()]));
            out.push(R::pair(Tag::Sim, x.clone(), a.clone()));
            out.push(R::pair(Tag::Inh, a.clone(), x));
        }
    }
    out.push(R::interval(7));
    out.push(R::placeholder());
    // level 1: every unordered constructor over the atoms, every sequence of length 1..3
    for &t in &set_tags {
        for s in u::sequences(&atoms, 1, 3) {
            out.push(R::node(t, s));
        }
    }
    // inner items for nesting: the same semantic value in both insertion / operand orders
    let inner = vec![
        R::node(Tag::SetExt, vec![a.clone(), b.clone()]),
        R::node(Tag::SetExt, vec![b.clone(), a.clone()]),
        R::node(Tag::SetExt, vec![a.clone(), b.clone(), c.clone()]),
        R::node(Tag::SetExt, vec![c.clone(), b.clone(), a.clone()]),
        R::node(Tag::Conj, vec![a.clone(), b.clone()]),
        R::node(Tag::SetInt, vec![a.clone(), b.clone()]),
        R::pair(Tag::Sim, a.clone(), b.clone()),
        R::pair(Tag::Sim, b.clone(), a.clone()),
        R::pair(Tag::Equiv, a.clone(), b.clone()),
        R::pair(Tag::Equiv, b.clone(), a.clone()),
        R::pair(Tag::EquivConc, a.clone(), b.clone()),
        R::pair(Tag::EquivConc, b.clone(), a.clone()),
        R::node(Tag::Product, vec![a.clone(), b.clone()]),
        R::node(Tag::Product, vec![b.clone(), a.clone()]),
        R::pair(Tag::Inh, a.clone(), b.clone()),
    ];
    let mut items = inner.clone();
    items.push(a.clone());
    items.push(c.clone());
    // two atoms that report the same name ("7") but hash differently: an interval and a word
    items.push(R::interval(7));
    items.push(R::word("7"));
    // level 2: unordered constructors over inner items
    let l2_tags: Vec<Tag> = if tier == Tier::Thorough { set_tags.clone() } else { vec![Tag::SetExt, Tag::IntInt, Tag::Conj, Tag::ParConj] };
    for &t in &l2_tags {
        for s in u::sequences(&items, 1, 2) {
            out.push(R::node(t, s));
        }
    }
    if tier == Tier::Thorough {
        for s in u::sequences(&items[..6], 3, 3) {
            out.push(R::node(Tag::SetExt, s));
        }
        // four-element sets (4! = 24 iteration orders each), flat and nested
        let d = R::atom(Tag::Operator, "d");
        let four = vec![a.clone(), b.clone(), c.clone(), d.clone()];
        for &t in &[Tag::SetExt, Tag::Conj, Tag::IntInt] {
            for s in u::sequences(&four, 4, 4) {
                out.push(R::node(t, s));
            }
        }
        let q1 = R::node(Tag::SetInt, vec![a.clone(), b.clone(), c.clone(), d.clone()]);
        let q2 = R::node(Tag::SetInt, vec![d.clone(), c.clone(), b.clone(), a.clone()]);
        for &t in &set_tags {
            out.push(R::node(t, vec![q1.clone(), a.clone()]));
            out.push(R::node(t, vec![a.clone(), q2.clone()]));
            out.push(R::node(t, vec![q1.clone(), q2.clone()]));
        }
        out.push(R::pair(Tag::Sim, q1.clone(), q2.clone()));
        out.push(R::pair(Tag::Inh, q1.clone(), q2.clone()));
    }
    // symmetric statements in both operand orders over atoms and inner items
    for &t in &sym_tags {
        for x in &items {
            for y in &items {
                out.push(R::pair(t, x.clone(), y.clone()));
            }
        }
    }
    // symmetric statements nested in sets / in symmetric statements
    for &t in &sym_tags {
        out.push(R::node(Tag::SetExt, vec![R::pair(t, a.clone(), b.clone()), c.clone()]));
        out.push(R::node(Tag::SetExt, vec![c.clone(), R::pair(t, b.clone(), a.clone())]));
        out.push(R::pair(t, R::pair(t, a.clone(), b.clone()), c.clone()));
        out.push(R::pair(t, c.clone(), R::pair(t, b.clone(), a.clone())));
    }
    // siblings forced to collide: pairs of distinct words whose own (fixed-key) hashes agree in
    // the low 32 bits, in the high 32 bits, in the low 16 bits - wherever an implementation orders,
    // buckets or deduplicates elements by a truncated hash, only such a pair can tell
    for (x, y) in colliding_word_pairs() {
        let (x, y) = (R::word(&x), R::word(&y));
        for &t in &sym_tags {
            out.push(R::pair(t, x.clone(), y.clone()));
            out.push(R::pair(t, y.clone(), x.clone()));
        }
        for &t in &set_tags {
            out.push(R::node(t, vec![x.clone(), y.clone()]));
            out.push(R::node(t, vec![y.clone(), x.clone()]));
            out.push(R::node(t, vec![x.clone(), y.clone(), a.clone()]));
            out.push(R::node(t, vec![a.clone(), y.clone(), x.clone()]));
        }
        out.push(R::node(Tag::SetExt, vec![R::pair(Tag::Sim, x.clone(), y.clone()), a.clone()]));
        out.push(R::node(Tag::SetExt, vec![a.clone(), R::pair(Tag::Sim, y.clone(), x.clone())]));
    }
    // symmetric statements whose two operands agree down to a depth of 1..8 (and 20) levels and differ only in the leaf
    // below, both operand orders, bare and as elements of a set (an ordering key that looks a few levels deep ties)
    for d in [1usize, 2, 3, 4, 5, 6, 7, 8, 20] {
        for &wrap in &[Tag::Neg, Tag::Product, Tag::SetExt] {
            let tower = |leaf: &R| {
                let mut t = leaf.clone();
                for _ in 0..d {
                    t = R::node(wrap, vec![t]);
                }
                t
            };
            let (x, y) = (tower(&a), tower(&b));
            for &t in &sym_tags {
                out.push(R::pair(t, x.clone(), y.clone()));
                out.push(R::pair(t, y.clone(), x.clone()));
                out.push(R::node(Tag::SetExt, vec![R::pair(t, x.clone(), y.clone()), c.clone()]));
                out.push(R::node(Tag::SetExt, vec![c.clone(), R::pair(t, y.clone(), x.clone())]));
            }
        }
    }
    // hash twins as siblings (every ordered pair, every unordered constructor and symmetric statement)
    {
        let mut tags = set_tags.clone();
        tags.extend(sym_tags);
        out.extend(u::hash_twin_family(&tags));
    }
    // the same set reached through differently GROWN tables: n distinct elements, then a duplicate
    // inserted exactly when the table is full (hashbrown reserves before it looks the key up), for
    // the growth steps 3 -> 7 -> 14 -> 28; flat and as an element of another unordered compound
    out.extend(grown_recipes(&[3]));
    // negative controls: ordered constructors, images, asymmetric statements, differences
    for t in [Tag::Product, Tag::SeqConj] {
        for s in u::sequences(&atoms, 1, 3) {
            out.push(R::node(t, s));
        }
        for s in u::sequences(&inner[..4], 2, 2) {
            out.push(R::node(t, s));
        }
    }
    for t in [Tag::ImageExt, Tag::ImageInt] {
        for s in u::sequences(&atoms[..2], 0, 2) {
            for i in 0..=s.len() {
                out.push(R::image(t, i, s.clone()));
            }
        }
    }
    for &t in STATEMENT_TAGS.iter().filter(|t| t.shape() == Shape::Pair).chain([Tag::DiffExt, Tag::DiffInt].iter()) {
        for x in &atoms {
            for y in &atoms {
                out.push(R::pair(t, x.clone(), y.clone()));
            }
        }
        out.push(R::pair(t, inner[0].clone(), inner[1].clone()));
        out.push(R::pair(t, inner[1].clone(), inner[0].clone()));
    }
    out.push(R::node(Tag::Neg, vec![inner[0].clone()]));
    out.push(R::node(Tag::Neg, vec![inner[1].clone()]));
    out.sort();
    out.dedup();
    out
}

/// Deterministic search (no sampling: the words c0, c1, c2, ... in order, first hits kept) for
/// pairs of distinct words whose `Term` hashes under `DefaultHasher::new()` agree in the low 32
/// bits (3 pairs), the high 32 bits (3 pairs) and the low 16 bits (2 pairs).
pub fn colliding_word_pairs() -> Vec<(String, String)> {
    static PAIRS: std::sync::OnceLock<Vec<(String, String)>> = std::sync::OnceLock::new();
    PAIRS
        .get_or_init(|| {
            use std::hash::{Hash, Hasher};
            let n: u32 = 1 << 19;
            let hs: Vec<u64> = (0..n)
                .into_par_iter()
                .map(|i| {
                    let t = Term::new_word(format!("c{i}"));
                    let mut h = std::collections::hash_map::DefaultHasher::new();
                    t.hash(&mut h);
                    h.finish()
                })
                .collect();
            let mut out = vec![];
            let mut find = |key: &dyn Fn(u64) -> u64, want: usize, limit: u32| {
                let mut seen: HashMap<u64, u32> = HashMap::new();
                let mut got = 0;
                for i in 0..limit {
                    let k = key(hs[i as usize]);
                    if let Some(j) = seen.get(&k) {
                        if hs[*j as usize] != hs[i as usize] {
                            out.push((format!("c{j}"), format!("c{i}")));
                            got += 1;
                            if got == want {
                                break;
                            }
                        }
                    } else {
                        seen.insert(k, i);
                    }
                }
            };
            find(&|h| h & 0xffff_ffff, 3, n);
            find(&|h| h >> 32, 3, n);
            find(&|h| h & 0xffff, 2, 4096);
            out
        })
        .clone()
}

/// the same set reached through differently grown tables (see `family`)
pub fn grown_recipes(sizes: &[usize]) -> Vec<R> {
    let set_tags: Vec<Tag> = COMPOUND_TAGS.iter().copied().filter(|t| t.shape() == Shape::Set).collect();
    let mut out = vec![];
    for &t in &set_tags {
        for &n in sizes {
            let elems: Vec<R> = (0..n).map(|i| R::word(&format!("g{i}"))).collect();
            let mut with_dup = elems.clone();
            with_dup.push(elems[0].clone());
            let mut dup_first = vec![elems[n - 1].clone()];
            dup_first.extend(elems.iter().cloned());
            dup_first.push(elems[1].clone());
            for inner in [elems.clone(), with_dup, dup_first] {
                out.push(R::node(t, inner.clone()));
                out.push(R::node(Tag::SetInt, vec![R::node(t, inner.clone()), R::word("x")]));
                out.push(R::pair(Tag::Equiv, R::word("x"), R::node(t, inner)));
            }
        }
    }
    out
}

/// ASCII texts parsed under every environment (two parses of the same string must be equal)
pub fn parse_texts() -> Vec<&'static str> {
    vec!["{{a,b},$a}", "{{a,b,$a}}", "(&&,{a,b},<a<->b>)", "<{a,b}<->{b,a}>", "{(&,a,b),(|,a,b)}", "<{a,b}-->[a,b]>", "(&|,(&&,a,b),(||,a,b))"]
}

/// all builds: every recipe / text under every distinguishable order environment
pub fn builds(run: &Run) -> Vec<Build> {
    let tier = run.tier;
    let fam = family(tier);
    let max_keys = tier.pick(64, 256);
    run.bound("order_keys_tried_per_set", json!(max_keys));
    run.count("recipes", fam.len() as u64);
    run.count("word_pairs_with_colliding_truncated_hashes", colliding_word_pairs().len() as u64);
    let mut all: Vec<Build> = fam
        .par_iter()
        .flat_map_iter(|r| {
            let mut v = vec![];
            let make = || r.build();
            env::explore(&make, &|t| R::of_term(t), max_keys, &mut |script, t| {
                let raw = R::of_term(&t);
                v.push(Build { origin: Origin::Recipe(r.clone()), script: script.to_vec(), canon: raw.canon(), raw, term: t, class: 0 });
            });
            v
        })
        .collect();
    // large sets: all iteration orders cannot be enumerated (n!), so each is built under the first
    // BIG_KEYS keys and in two insertion orders; sizes straddle hashbrown's growth steps
    // (3/4, 7/8, 14/15, 28/29 elements) so that differently grown tables are compared too
    let big_keys: u64 = tier.pick(6, 16);
    run.bound("large_set_sizes", json!([5, 8, 9, 15, 16, 29, 33, 64, 65, 130, 256, 257, 300]));
    run.bound("large_set_keys_each", json!(big_keys));
    let mut big: Vec<(R, Vec<u64>)> = vec![];
    for &tag in &[Tag::SetExt, Tag::Conj, Tag::IntExt] {
        for n in [5usize, 8, 9, 15, 16, 29, 33, 64, 65, 130, 256, 257, 300] {
            let elems: Vec<R> = (0..n).map(|i| R::word(&format!("w{i}"))).collect();
            let rev: Vec<R> = elems.iter().rev().cloned().collect();
            for k in 0..big_keys {
                big.push((R::node(tag, elems.clone()), vec![k]));
                big.push((R::node(tag, rev.clone()), vec![k]));
                if n == 9 || n == 16 || n == 65 || n == 300 {
                    // nested: the large set as an element of a small set and of a symmetric statement
                    big.push((R::node(Tag::SetInt, vec![R::node(tag, elems.clone()), R::word("x")]), vec![k, 0]));
                    big.push((R::node(Tag::SetInt, vec![R::word("x"), R::node(tag, rev.clone())]), vec![k + 1, 1]));
                    big.push((R::pair(Tag::Sim, R::node(tag, elems.clone()), R::word("x")), vec![k]));
                    big.push((R::pair(Tag::Sim, R::word("x"), R::node(tag, rev.clone())), vec![k + 2]));
                }
            }
        }
    }
    // medium sets (4, 5, 6, 8 elements) that hold a pair of hash twins (terms the hash cannot tell apart: they tie
    // wherever elements are ordered or bucketed by hash) next to ordinary elements, in three insertion orders
    {
        let (a, b) = (R::word("a"), R::word("b"));
        let twin_pairs: Vec<(R, R)> = vec![
            (a.clone(), R::atom(Tag::IVar, "a")),
            (a.clone(), R::node(Tag::Neg, vec![a.clone()])),
            (R::node(Tag::Product, vec![a.clone(), b.clone()]), R::pair(Tag::Inh, a.clone(), b.clone())),
            (R::node(Tag::SetExt, vec![a.clone()]), R::node(Tag::SetInt, vec![a.clone()])),
            (R::interval(7), R::word("7")),
        ];
        for &tag in &[Tag::SetExt, Tag::Conj, Tag::IntExt, Tag::ParConj] {
            for (x, y) in &twin_pairs {
                for n in [4usize, 5, 6, 8] {
                    let mut elems: Vec<R> = vec![x.clone(), y.clone()];
                    elems.extend((0..n - 2).map(|i| R::word(&format!("m{i}"))));
                    let rev: Vec<R> = elems.iter().rev().cloned().collect();
                    let mut rot = elems.clone();
                    rot.rotate_left(1);
                    for k in 0..big_keys {
                        big.push((R::node(tag, elems.clone()), vec![k]));
                        big.push((R::node(tag, rev.clone()), vec![k + 7]));
                        big.push((R::node(tag, rot.clone()), vec![k + 13]));
                    }
                }
            }
        }
    }
    for r in grown_recipes(&[7, 14, 28]) {
        for k in 0..big_keys.min(4) {
            big.push((r.clone(), vec![k, k + 1]));
        }
    }
    run.count("large_set_builds", big.len() as u64);
    for (r, script) in big {
        let (t, _) = narsese::verif_hooks::with_seed_script(&script, || r.build());
        let raw = R::of_term(&t);
        all.push(Build { origin: Origin::Recipe(r), script, canon: raw.canon(), raw, term: t, class: 0 });
    }
    // the same value through different construction routes (allocation history must not matter)
    let mut route_builds = 0u64;
    for r in route_recipes() {
        for route in ROUTES {
            let built = quiet_catch(AssertUnwindSafe(|| route_build(route, &r)));
            match built {
                Ok(Some(t)) => {
                    let raw = R::of_term(&t);
                    route_builds += 1;
                    if raw.canon() != r.canon() {
                        run.violation(
                            &format!("the route {route} gives {} for the value {}", raw.canon().show(), r.canon().show()),
                            json!({"op": "route", "route": route, "recipe": r.to_json()}),
                            &[],
                        );
                        continue;
                    }
                    all.push(Build { origin: Origin::Route(route.to_string(), r.clone()), script: vec![], canon: raw.canon(), raw, term: t, class: 0 });
                }
                Ok(None) => {}
                Err(p) => run.violation(&format!("the route {route} panics on {}: {p}", r.show()), json!({"op": "route", "route": route, "recipe": r.to_json()}), &[]),
            }
        }
    }
    run.count("construction_route_builds", route_builds);
    let f = fmts::ascii();
    for s in parse_texts() {
        let make = || f.e.parse::<Narsese>(s).expect("family text must parse").try_into_term().expect("term");
        env::explore(&make, &|t| R::of_term(t), max_keys, &mut |script, t| {
            let raw = R::of_term(&t);
            all.push(Build { origin: Origin::Parse(s.to_string()), script: script.to_vec(), canon: raw.canon(), raw, term: t, class: 0 });
        });
    }
    // sanity: the canonical form of what was built is the canonical form of the recipe
    for b in &all {
        if let Origin::Recipe(r) = &b.origin {
            if r.canon() != b.canon {
                // e.g. a set that swallowed a semantically different element, because == or the
                // hash conflates them
                run.violation(
                    &format!("{} has the canonical form {} but was built from the recipe {} (a container lost or conflated an element)", b.describe(), b.canon.show(), r.canon().show()),
                    json!({"op": "eq_pair", "a": b.to_json(), "b": b.to_json(), "note": "build differs from its recipe"}),
                    &[],
                );
            }
        }
    }
    let mut ids: HashMap<R, usize> = HashMap::new();
    for b in all.iter_mut() {
        let n = ids.len();
        b.class = *ids.entry(b.canon.clone()).or_insert(n);
    }
    run.count("canonical_classes", ids.len() as u64);
    // order coverage: per recipe, environments realised vs the product of k! over its sets
    let mut expected = 0u64;
    let mut per_recipe: HashMap<String, u64> = HashMap::new();
    for b in &all {
        if let Origin::Recipe(r) = &b.origin {
            *per_recipe.entry(r.show()).or_insert(0) += 1;
        }
    }
    let distinct_big_orders: std::collections::HashSet<&R> = all.iter().filter(|b| b.raw.size() > 5 && matches!(&b.origin, Origin::Recipe(r) if r.kids.len() >= 5 || r.kids.iter().any(|k| k.kids.len() >= 5))).map(|b| &b.raw).collect();
    run.count("large_set_distinct_iteration_orders_realised", distinct_big_orders.len() as u64);
    let mut gaps = 0u64;
    for r in &fam {
        let e = expected_orders(r);
        expected += e;
        if per_recipe.get(&r.show()).copied().unwrap_or(0) < e {
            gaps += 1;
            if std::env::var("NVCHECK_DEBUG").is_ok() {
                eprintln!("order gap: {} realised {} expected {}", r.show(), per_recipe.get(&r.show()).copied().unwrap_or(0), e);
            }
        }
    }
    run.count("order_environments_realised", per_recipe.values().sum());
    run.count("order_environments_expected_product_of_factorials", expected);
    run.count("recipes_with_order_coverage_gap", gaps);
    if gaps > 0 {
        run.cap(&format!("{gaps} recipes did not realise every iteration order within {max_keys} keys per set"));
    }
    all
}

/// product over the set nodes of the number of iteration orders reachable by varying the key:
/// k! / prod(g_i!) where the g_i are the sizes of groups of distinct elements whose `Term` hash
/// coincides (same name under different atom kinds hash alike by design; their relative order is
/// fixed by insertion order, which the recipe family enumerates separately)
pub fn expected_orders(r: &R) -> u64 {
    if r.tag.shape() != Shape::Set {
        return r.kids.iter().map(expected_orders).product();
    }
    // a set keeps the first inserted of several semantically equal children
    let mut kept: Vec<&R> = vec![];
    for k in &r.kids {
        if !kept.iter().any(|x| x.canon() == k.canon()) {
            kept.push(k);
        }
    }
    let mut p: u64 = kept.iter().map(|k| expected_orders(k)).product();
    {
        let k: Vec<R> = kept.iter().map(|k| k.canon()).collect();
        let mut groups: HashMap<u64, usize> = HashMap::new();
        for e in &k {
            *groups.entry(crate::props::c07::hashes(&e.build())[0]).or_insert(0) += 1;
        }
        let mut n = env::factorial(k.len());
        for g in groups.values() {
            n /= env::factorial(*g);
        }
        p *= n;
    }
    p
}

fn eq_caught(a: &Term, b: &Term) -> Result<bool, String> {
    quiet_catch(AssertUnwindSafe(|| a == b))
}

pub fn check_pair(x: &Build, y: &Build) -> Result<(), String> {
    let expect = x.class == y.class;
    let xy = eq_caught(&x.term, &y.term).map_err(|p| format!("== panics: {p}"))?;
    let yx = eq_caught(&y.term, &x.term).map_err(|p| format!("== panics: {p}"))?;
    if xy != expect || yx != expect {
        return Err(format!(
            "a = {} ; b = {} ; canonical forms are {} but a == b is {xy} and b == a is {yx}",
            x.describe(),
            y.describe(),
            if expect { "equal" } else { "different" }
        ));
    }
    Ok(())
}

pub fn replay_route(c: &J) -> Result<(), String> {
    let r = R::from_json(&c["recipe"]);
    let route = c["route"].as_str().unwrap_or("").to_string();
    let r2 = r.clone();
    match quiet_catch(AssertUnwindSafe(move || route_build(&route, &r2))) {
        Ok(Some(t)) => {
            let got = R::canon_of_term(&t);
            if got != r.canon() {
                return Err(format!("the route gives {} for the value {}", got.show(), r.canon().show()));
            }
            Ok(())
        }
        Ok(None) => Ok(()),
        Err(p) => Err(format!("the route panics: {p}")),
    }
}

pub fn replay_case(c: &J) -> Result<(), String> {
    if c["op"].as_str() == Some("route") {
        let r = R::from_json(&c["recipe"]);
        let route = c["route"].as_str().unwrap_or("constructor");
        return match route_build(route, &r) {
            Some(t) if R::canon_of_term(&t) == r.canon() => Ok(()),
            Some(t) => Err(format!("the route {route} gives {}", R::canon_of_term(&t).show())),
            None => Ok(()),
        };
    }
    let a = rebuild(&c["a"]);
    let b = rebuild(&c["b"]);
    let expect = R::canon_of_term(&a) == R::canon_of_term(&b);
    let (xy, yx) = (a == b, b == a);
    if xy != expect || yx != expect {
        return Err(format!("canonical forms {} but a == b is {xy}, b == a is {yx}", if expect { "equal" } else { "differ" }));
    }
    let wrap = |t: &Term| Narsese::Sentence(Sentence::Judgement(t.clone(), Truth::Empty, Stamp::Eternal));
    if (wrap(&a) == wrap(&b)) != expect {
        return Err("derived == on Sentence/Narsese disagrees with the canonical forms".into());
    }
    Ok(())
}

pub fn run(run: &Run) {
    run.rule(
        "recipes: 7 unordered constructors over 3 atoms in every insertion sequence of length 1..3 \
         (duplicates incl.), over 13 nested items (the same set / symmetric statement in both \
         orders, ordered controls) at length 1..2, 3 symmetric statements over all operand pairs, \
         nested symmetric statements, ordered / image / asymmetric controls, same name under \
         different atom kinds, hash twins, colliding-hash word pairs, 7 parsed texts, every variable-arity \
         constructor with 1..17 components through 8 construction routes (constructor, clone, parsers, fold, push); every recipe under EVERY distinguishable combination \
         of hash-iteration orders of its sets; then ALL pairs of builds: (a == b) and (b == a) must \
         equal (canon(a) = canon(b)); reflexivity; derived == on Sentence/Task/Narsese wrappers; \
         distinct = canonically equal pairs whose builds differ in recipe or environment",
    );
    run.assume("SeededState hook: only the source of the SipHash key changes; thorough tier cross-checks with the real RandomState (freerun, sampling, never decides)");
    let all = builds(run);
    let n = all.len();
    run.add_states(n as u64, 0);
    run.sample(json!({"build": all[n / 2].describe()}));
    run.sample(json!({"build": all[n - 1].describe()}));
    // determinism: rebuilding under the same script gives the same observation
    let redo: u64 = all
        .par_iter()
        .map(|b| {
            let t = rebuild(&b.to_json());
            assert_eq!(R::of_term(&t), b.raw, "harness: rebuilding under the same seed script gave a different iteration order");
            1u64
        })
        .sum();
    run.add_traces(redo);
    // reflexivity
    for b in &all {
        run.eval(1);
        match eq_caught(&b.term, &b.term) {
            Ok(true) => {}
            Ok(false) => run.violation(&format!("a == a is false for a = {}", b.describe()), json!({"op": "eq_pair", "a": b.to_json(), "b": b.to_json()}), &[]),
            Err(p) => run.violation(&format!("a == a panics for {}: {p}", b.describe()), json!({"op": "eq_pair", "a": b.to_json(), "b": b.to_json()}), &[]),
        }
    }
    // all pairs
    let nontrivial = std::sync::atomic::AtomicU64::new(0);
    (0..n).into_par_iter().for_each(|i| {
        // one watchdog case per row of the comparison matrix (the per-comparison guards inside are then free)
        let _w = crate::watch::enter_with(|| format!("comparing build #{i} with every other build"));
        let mut local_nt = 0u64;
        for j in (i + 1)..n {
            let (x, y) = (&all[i], &all[j]);
            if x.class == y.class {
                local_nt += 1;
            }
            if let Err(msg) = check_pair(x, y) {
                run.violation(&msg, json!({"op": "eq_pair", "a": x.to_json(), "b": y.to_json()}), &[]);
            }
        }
        run.eval(2 * (n - i - 1) as u64);
        nontrivial.fetch_add(local_nt, std::sync::atomic::Ordering::Relaxed);
    });
    run.add_distinct(nontrivial.load(std::sync::atomic::Ordering::Relaxed));
    run.add_states(0, (n as u64) * (n as u64 - 1));
    // transitivity inside classes is implied by agreement with an equivalence; evaluated anyway on
    // consecutive triples. Derived == of wrappers on within-class pairs and their neighbours.
    let wrap_s = |t: &Term| Sentence::Judgement(t.clone(), Truth::Single(0.5), Stamp::Fixed(3));
    let mut by_class: HashMap<usize, Vec<usize>> = HashMap::new();
    for (i, b) in all.iter().enumerate() {
        by_class.entry(b.class).or_default().push(i);
    }
    for idxs in by_class.values() {
        for w in idxs.windows(2) {
            let (x, y) = (&all[w[0]], &all[w[1]]);
            run.eval(3);
            let s_eq = wrap_s(&x.term) == wrap_s(&y.term);
            let n_eq = Narsese::Term(x.term.clone()) == Narsese::Term(y.term.clone());
            let t_eq = narsese::enum_narsese::Task(wrap_s(&x.term), narsese::enum_narsese::Budget::Empty)
                == narsese::enum_narsese::Task(wrap_s(&y.term), narsese::enum_narsese::Budget::Empty);
            if !(s_eq && n_eq && t_eq) {
                run.violation(
                    &format!("derived == on wrappers: sentence {s_eq}, narsese {n_eq}, task {t_eq} for semantically equal terms a = {} ; b = {}", x.describe(), y.describe()),
                    json!({"op": "eq_pair", "a": x.to_json(), "b": y.to_json()}),
                    &[],
                );
            }
        }
    }
}
