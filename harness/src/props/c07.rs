//! C07 - equal terms hash equally, so terms work as hash-map and hash-set keys.

use crate::props::c06::{self, Build};
use crate::report::Run;
use narsese::enum_narsese::Term;
use rayon::prelude::*;
use serde_json::{json, Value as J};
use std::collections::{HashMap, HashSet};
use std::hash::{Hash, Hasher};

/// a deliberately simple, non-SipHash hasher (FNV-1a)
pub struct Fnv(u64);
impl Hasher for Fnv {
    fn finish(&self) -> u64 {
        self.0
    }
    fn write(&mut self, bytes: &[u8]) {
        for b in bytes {
            self.0 ^= *b as u64;
            self.0 = self.0.wrapping_mul(0x100000001b3);
        }
    }
}

#[allow(deprecated)]
pub fn hashes(t: &Term) -> Vec<u64> {
    let mut out = vec![];
    let mut h = std::collections::hash_map::DefaultHasher::new();
    t.hash(&mut h);
    out.push(h.finish());
    for (k0, k1) in [(0u64, 0u64), (1, 2), (0xdead_beef, 0x1234_5678_9abc_def0)] {
        let mut h = std::hash::SipHasher::new_with_keys(k0, k1);
        t.hash(&mut h);
        out.push(h.finish());
    }
    let mut h = Fnv(0xcbf29ce484222325);
    t.hash(&mut h);
    out.push(h.finish());
    out
}

pub fn check_pair(x: &Term, y: &Term) -> Result<(), String> {
    let (hx, hy) = (hashes(x), hashes(y));
    if hx != hy {
        return Err(format!("hashes differ under the same hashers: {hx:x?} vs {hy:x?}"));
    }
    let mut s: HashSet<Term> = HashSet::new();
    s.insert(x.clone());
    if !s.contains(y) {
        return Err("HashSet{a}.contains(b) is false".into());
    }
    let mut m: HashMap<Term, u32> = HashMap::new();
    m.insert(x.clone(), 1);
    if m.get(y) != Some(&1) {
        return Err("HashMap{a -> 1}.get(b) is not Some(1)".into());
    }
    m.insert(y.clone(), 2);
    if m.len() != 1 {
        return Err("inserting b into HashMap{a -> 1} created a second entry".into());
    }
    Ok(())
}

pub fn replay_case(c: &J) -> Result<(), String> {
    let a = c06::rebuild(&c["a"]);
    let b = c06::rebuild(&c["b"]);
    if crate::model::R::canon_of_term(&a) != crate::model::R::canon_of_term(&b) {
        return Err("replay file does not describe a semantically equal pair".into());
    }
    check_pair(&a, &b)
}

pub fn run(run: &Run) {
    run.rule(
        "the C06 recipe family under every distinguishable combination of hash-iteration orders; \
         for EVERY pair of builds with equal canonical form: equal finish() under DefaultHasher, \
         SipHash with 3 fixed keys and FNV-1a; HashSet{a}.contains(b); HashMap{a->1}.get(b) and \
         re-insertion keeps one entry; distinct = such pairs whose builds differ in recipe or \
         environment",
    );
    run.assume("SeededState hook: only the source of the SipHash key of the term sets changes");
    let all: Vec<Build> = c06::builds(run);
    let n = all.len();
    run.add_states(n as u64, 0);
    run.add_traces(n as u64);
    run.sample(json!({"build": all[n / 3].describe(), "hashes": hashes(&all[n / 3].term).iter().map(|h| format!("{h:016x}")).collect::<Vec<_>>()}));
    // hashes of every build computed once on THIS thread; the pair loop below runs on worker threads
    // and compares its own hashes of `a` with this thread's hashes of `b` - a hash that depends on
    // the hashing thread (thread-local keys) is not a function of the value
    let here: Vec<Vec<u64>> = all.iter().map(|b| hashes(&b.term)).collect();
    let mut by_class: HashMap<usize, Vec<usize>> = HashMap::new();
    for (i, b) in all.iter().enumerate() {
        by_class.entry(b.class).or_default().push(i);
    }
    let classes: Vec<&Vec<usize>> = by_class.values().collect();
    classes.par_iter().for_each(|idxs| {
        for (p, &i) in idxs.iter().enumerate() {
            for &j in &idxs[p + 1..] {
                run.eval(1);
                run.add_distinct(1);
                let (x, y) = (&all[i], &all[j]);
                let res = crate::report::quiet_catch(std::panic::AssertUnwindSafe(|| {
                    let mine = hashes(&x.term);
                    if mine != here[j] {
                        return Err(format!("hashes of a computed on a worker thread {mine:x?} differ from hashes of b computed on the main thread {:x?}", here[j]));
                    }
                    check_pair(&x.term, &y.term)
                }));
                let res = match res { Ok(r) => r, Err(p) => Err(format!("panic: {p}")) };
                if let Err(msg) = res {
                    run.violation(
                        &format!("a = {} ; b = {} ; semantically equal but {msg}", x.describe(), y.describe()),
                        json!({"op": "hash_pair", "a": x.to_json(), "b": y.to_json()}),
                        &[],
                    );
                }
            }
        }
    });
    run.add_states(0, run.evaluations.load(std::sync::atomic::Ordering::Relaxed));
    run.count("classes_with_more_than_one_build", by_class.values().filter(|v| v.len() > 1).count() as u64);
}
