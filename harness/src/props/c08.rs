//! C08 - parsing depends only on format and input, not on earlier parses.
//!
//! E4: explicit-state search (stateright BFS) over the *real* reused parser state. A state is the
//! event history plus the canonical form of what the reused `ParseState` still holds
//! (`mid_result`) after the last input; `next_state` rebuilds the real object by replaying the
//! history on a fresh `MultiParser` (hook: literally the body of the `parse_multi` loop) and
//! feeds it one more input. Every explored history is then replayed through the public
//! `parse_multi`.

use crate::emit;
use crate::fmts::{self, F};
use crate::model::*;
use crate::ops;
use crate::report::{quiet_catch, Run, Tier};
use narsese::conversion::string::impl_enum::verif_hooks::MultiParser;
use narsese::enum_narsese::Narsese;
use rayon::prelude::*;
use serde_json::{json, Value as J};
use stateright::{Checker, Model, Property};
use std::hash::{Hash, Hasher};
use std::panic::AssertUnwindSafe;
use std::sync::{Arc, Mutex};

/// the input alphabet of one format: (label, text)
/// thorough tier: further partial / failing inputs
pub fn alphabet_thorough(f: &F) -> Vec<(&'static str, String)> {
    let mut v = alphabet(f);
    let e = f.e;
    let s = &e.sentence;
    let t = &e.task;
    let c = &e.compound;
    v.extend(vec![
        ("budget-unterminated", format!("{}0.5", t.budget_brackets.0)),
        ("budget-open-only", t.budget_brackets.0.to_string()),
        ("truth-unterminated", format!("a{} {}1", s.punctuation_judgement, s.truth_brackets.0)),
        ("truth-three-values", format!("a{} {}1{}1{}1{}", s.punctuation_judgement, s.truth_brackets.0, s.truth_separator, s.truth_separator, s.truth_brackets.1)),
        ("stamp-garbage", format!("a{} {}x{}", s.punctuation_judgement, s.stamp_brackets.0, s.stamp_brackets.1)),
        ("fixed-stamp-no-number", format!("a{} {}{}", s.punctuation_judgement, s.stamp_brackets.0, s.stamp_fixed)),
        ("two-punctuations", format!("a{}{}", s.punctuation_judgement, s.punctuation_goal)),
        ("budget-budget", format!("{}{} {}{} a{}", t.budget_brackets.0, t.budget_brackets.1, t.budget_brackets.0, t.budget_brackets.1, s.punctuation_judgement)),
        ("set-unterminated", format!("{}a{} b1", c.brackets_set_extension.0, c.separator)),
        ("empty-compound", format!("{}{}{}{}", c.brackets.0, c.connecter_product, c.separator, c.brackets.1)),
        ("image-without-placeholder", format!("{}{}{} a{}", c.brackets.0, c.connecter_image_extension, c.separator, c.brackets.1)),
        ("interval-overflow", format!("{}99999999999999999999999", e.atom.prefix_interval)),
    ]);
    v
}

pub fn alphabet(f: &F) -> Vec<(&'static str, String)> {
    let e = f.e;
    let s = &e.sentence;
    let t = &e.task;
    let a = R::word("a");
    let stmt = R::pair(Tag::Inh, R::word("a"), R::word("b1"));
    // complete values are written without optional spaces (C09 is about spacing, not this check)
    let term = |r: &R| emit::join(&emit::term_toks(f, r), "");
    let val = |v: &V| emit::join(&emit::value(f, v), "");
    let truth = |xs: &[f64]| {
        let mut o = vec![];
        emit::floats(s.truth_brackets.0, s.truth_separator, s.truth_brackets.1, xs, &mut o);
        o.join("")
    };
    let budget = |xs: &[f64]| {
        let mut o = vec![];
        emit::floats(t.budget_brackets.0, t.budget_separator, t.budget_brackets.1, xs, &mut o);
        o.join("")
    };
    let stamp = |st: St| {
        let mut o = vec![];
        emit::stamp(f, st, &mut o);
        o.join("")
    };
    let c = &e.compound;
    vec![
        ("task", val(&V { term: stmt.clone(), punct: Some(P::Judgement), stamp: St::Fixed(-1), truth: vec![1.0, 0.9], budget: Some(vec![0.5, 0.75, 0.4]) })),
        ("task-empty-budget", val(&V { term: a.clone(), punct: Some(P::Goal), stamp: St::Eternal, truth: vec![], budget: Some(vec![]) })),
        ("sentence", val(&V { term: stmt.clone(), punct: Some(P::Judgement), stamp: St::Present, truth: vec![1.0], budget: None })),
        ("sentence-bare", format!("b1{}", s.punctuation_judgement)),
        ("question", val(&V { term: R::atom(Tag::QVar, "a"), punct: Some(P::Question), stamp: St::Eternal, truth: vec![], budget: None })),
        ("term", term(&stmt)),
        ("atom", "a".to_string()),
        ("ivar", term(&R::atom(Tag::IVar, "b1"))),
        ("budget-only", budget(&[0.5])),
        ("budget-only-empty", budget(&[])),
        ("truth-only", truth(&[1.0, 0.9])),
        ("stamp-only", stamp(St::Present)),
        ("stamp-fixed-only", stamp(St::Fixed(5))),
        ("punctuation-only", s.punctuation_goal.to_string()),
        ("budget-term", format!("{} a", budget(&[0.5]))),
        ("term-truth", format!("a {}", truth(&[0.25]))),
        ("term-stamp", format!("a {}", stamp(St::Past))),
        ("truth-out-of-range", format!("a{} {}", s.punctuation_judgement, truth(&[2.0]))),
        ("budget-out-of-range", format!("{} a{}", budget(&[2.0]), s.punctuation_judgement)),
        ("punct-then-garbage", format!("a{} {}", s.punctuation_quest, c.brackets.1)),
        ("unterminated-compound", format!("{}{}{} a", c.brackets.0, c.connecter_conjunction, c.separator)),
        ("unterminated-statement", format!("{}a {}", e.statement.brackets.0, e.statement.copula_inheritance)),
        ("two-terms", "a b1".to_string()),
        // a bare atom whose last character begins a copula (ASCII/LaTeX '-', Han 将): the atom-name
        // look-ahead peeks beyond the name, so stale characters of an earlier, longer input matter
        ("atom-ending-in-copula-head", if f.name == "han" { "乙将".to_string() } else { "ab-".to_string() }),
        ("implication-term", term(&R::pair(Tag::Impl, R::word("a"), R::word("b1")))),
        ("equivalence-term", term(&R::pair(Tag::Equiv, R::word("a"), R::word("b1")))),
        // whitespace other than the format's own space around a valid sentence
        ("newline-wrapped-sentence", format!("\nb1{}\n", s.punctuation_judgement)),
        ("tab-led-term", "\ta".to_string()),
        // leniently accepted number lists: a lone dot / a malformed number before the closing
        // bracket is dropped (empty truth / budget), which leaves any scratch space non-empty
        ("truth-lone-dot", format!("a{} {}.{}", s.punctuation_judgement, s.truth_brackets.0, s.truth_brackets.1)),
        ("truth-malformed-number", format!("a{} {}1.2.3{}", s.punctuation_judgement, s.truth_brackets.0, s.truth_brackets.1)),
        ("budget-lone-dot", format!("{}.{} a{}", t.budget_brackets.0, t.budget_brackets.1, s.punctuation_judgement)),
        ("truth-integer", format!("a{} {}1{}", s.punctuation_judgement, s.truth_brackets.0, s.truth_brackets.1)),
        ("empty", String::new()),
        ("space", " ".to_string()),
        ("garbage", c.brackets.1.to_string()),
    ]
}

/// E5 alphabet for C08: one op per (pipeline, format, input). Pipelines: the enum parser, the lexical
/// parser, lexical parse + fold - all on the shared static format instances - and the lexical parser
/// on a format instance created (and dropped) inside the op. Inputs: the alphabet above, a number
/// list whose first entry is fine and whose second is malformed (a failing call that has already
/// stored something), and names holding the supplementary-plane "twin" (same low 16 bits) of a
/// keyword character. Outcome = Err or the canonical value, so ANY dependence on earlier calls shows.
pub fn history_inputs(f: &F) -> Vec<(String, String)> {
    let f = *f;
    {
        let e = f.e;
        let s = &e.sentence;
        let t = &e.task;
        let mut inputs: Vec<(String, String)> = alphabet(&f).into_iter().map(|(n, x)| (n.to_string(), x)).collect();
        inputs.push(("truth-valid-then-malformed".into(), format!("a{} {}0.5{}1.2.3{}", s.punctuation_judgement, s.truth_brackets.0, s.truth_separator, s.truth_brackets.1)));
        inputs.push(("budget-valid-then-malformed".into(), format!("{}0.25{}0..5{} a{}", t.budget_brackets.0, t.budget_separator, t.budget_brackets.1, s.punctuation_judgement)));
        inputs.push(("budget-valid-then-out-of-range".into(), format!("{}0.25{}7{} a{}", t.budget_brackets.0, t.budget_separator, t.budget_brackets.1, s.punctuation_judgement)));
        inputs.push(("image-no-placeholder".into(), format!("{}{}{}a{}b1{}", e.compound.brackets.0, e.compound.connecter_image_extension, e.compound.separator, e.compound.separator, e.compound.brackets.1)));
        inputs.push(("image".into(), emit::join(&emit::term_toks(&f, &R::image(Tag::ImageExt, 1, vec![R::word("r"), R::word("x")])), "")));
        // twins: for a few keyword characters c, the identifier character c + 0x10000 inside a name
        let kw_chars: Vec<char> = [s.punctuation_judgement, e.statement.brackets.0, e.statement.brackets.1, e.statement.copula_inheritance, e.compound.separator, e.compound.brackets_set_extension.0, e.space.parse]
            .iter()
            .filter_map(|k| k.chars().next())
            .collect();
        for c in kw_chars {
            for off in [0x10000u32, 0x100] {
                if let Some(tw) = char::from_u32(c as u32 + off).filter(|x| x.is_alphanumeric()) {
                    let name = format!("a{tw}b");
                    let st = R::pair(Tag::Inh, R::word(&name), R::word("c"));
                    inputs.push((format!("twin-of-{c:?}+{off:x}"), format!("{}{}", emit::join(&emit::term_toks(&f, &st), ""), s.punctuation_judgement)));
                }
            }
        }
        inputs
    }
}

pub fn history_ops() -> Vec<crate::history::Op> {
    use crate::history::Op;
    let mut v = vec![];
    for f in fmts::all() {
        let inputs = history_inputs(&f);
        for (n, x) in &inputs {
            let (f1, x1) = (f, x.clone());
            v.push(Op::new(format!("enum-parse[{}] {n}: {x:?}", f.name), move || match outcome(&ops::parse_enum(&f1, &x1)) {
                Ok(cv) => show_cv(&cv),
                Err(()) => "Err".into(),
            }));
            // the lexical pipeline on every third input and on the ones that fail half-way
            let k = inputs.iter().position(|(m, _)| m == n).unwrap_or(0);
            if k % 3 != 0 && !n.contains("then-") && !n.starts_with("image") && !n.starts_with("twin") {
                continue;
            }
            let (f2, x2) = (f, x.clone());
            v.push(Op::new(format!("lexical-parse+fold[{}] {n}: {x:?}", f.name), move || {
                let l = match ops::parse_lex(&f2, &x2) {
                    Ok(l) => l,
                    Err(_) => return "lexical Err".into(),
                };
                let shown = format!("{l:?}");
                match outcome(&ops::fold(&f2, l)) {
                    Ok(cv) => format!("{shown} => {}", show_cv(&cv)),
                    Err(()) => format!("{shown} => fold Err"),
                }
            }));
        }
        // the same text read by ANOTHER format (a sentence of one format is, for the others, a word followed by
        // something else): alone, and twice in a row (a result remembered after the second sight of a text)
        for g in fmts::all() {
            if g.name == f.name {
                continue;
            }
            for n in ["sentence-bare", "sentence", "question"] {
                let x = history_inputs(&g).into_iter().find(|(m, _)| m == n).map(|(_, x)| x).unwrap_or_default();
                let (f3, x3) = (f, x.clone());
                v.push(Op::new(format!("lexical-parse[{}] of the {} text {n}: {x:?}", f.name, g.name), move || match ops::parse_lex(&f3, &x3) {
                    Ok(l) => format!("{l:?}"),
                    Err(_) => "Err".into(),
                }));
                let (f4, x4) = (f, x.clone());
                v.push(Op::new(format!("enum-parse[{}] of the {} text {n}: {x:?}", f.name, g.name), move || match outcome(&ops::parse_enum(&f4, &x4)) {
                    Ok(cv) => show_cv(&cv),
                    Err(()) => "Err".into(),
                }));
            }
        }
        for n in ["sentence-bare", "sentence", "question", "atom"] {
            let x = inputs.iter().find(|(m, _)| m == n).map(|(_, x)| x.clone()).unwrap_or_default();
            let (f5, x5) = (f, x.clone());
            v.push(Op::new(format!("both parsers TWICE in a row[{}] {n}: {x:?}", f.name), move || {
                let a = (ops::parse_lex(&f5, &x5).map(|l| format!("{l:?}")).ok(), outcome(&ops::parse_enum(&f5, &x5)).ok().map(|c| show_cv(&c)));
                let b = (ops::parse_lex(&f5, &x5).map(|l| format!("{l:?}")).ok(), outcome(&ops::parse_enum(&f5, &x5)).ok().map(|c| show_cv(&c)));
                format!("{a:?} / {b:?}")
            }));
        }
        // the enum format copied by value into a local of the caller (the shipped enum formats are plain values)
        for n in ["sentence", "term", "atom-ending-in-copula-head", "implication-term"] {
            let x = inputs.iter().find(|(m, _)| m == n).map(|(_, x)| x.clone()).unwrap_or_default();
            let f6 = f;
            let x1 = x.clone();
            v.push(Op::new(format!("enum-parse on a format copied into a local[{}] {n}: {x:?}", f.name), move || {
                let own = f6.e.clone();
                let r = quiet_catch(AssertUnwindSafe(|| own.parse::<Narsese>(&x1).map(|n| show_cv(&cv_of(&n))).map_err(|_| ())));
                format!("{r:?}")
            }));
            let x2 = x.clone();
            v.push(Op::new(format!("enum-parse on a format copied into a box[{}] {n}: {x:?}", f.name), move || {
                let boxed = Box::new(f6.e.clone());
                let r = quiet_catch(AssertUnwindSafe(|| boxed.parse::<Narsese>(&x2).map(|n| show_cv(&cv_of(&n))).map_err(|_| ())));
                format!("{r:?}")
            }));
        }
        // a format instance of the caller's own, created and dropped around one parse
        for n in ["sentence", "term", "atom-ending-in-copula-head", "task"] {
            let x = inputs.iter().find(|(m, _)| m == n).map(|(_, x)| x.clone()).unwrap_or_default();
            let name = f.name;
            v.push(Op::new(format!("lexical-parse on an owned format[{name}] {n}: {x:?}"), move || {
                use narsese::conversion::string::impl_lexical::format_instances as fi;
                let own = match name {
                    "ascii" => fi::create_format_ascii(),
                    "latex" => fi::create_format_latex(),
                    _ => fi::create_format_han(),
                };
                match quiet_catch(AssertUnwindSafe(|| own.parse(&x).map_err(|e| e.to_string()))) {
                    Ok(Ok(l)) => format!("{l:?}"),
                    Ok(Err(_)) => "Err".into(),
                    Err(p) => format!("PANIC: {p}"),
                }
            }));
        }
    }
    // a format of the user's own that shares all keywords but one with the shipped ASCII format (the property
    // speaks of "the format", not only of the shipped ones): the ASCII vocabulary with a worded property copula
    {
        let f = fmts::ascii();
        for (which, text) in [("custom", "<bird-has-wings>."), ("custom", "<bird--]wings>."), ("stock", "<bird--]wings>."), ("stock", "<bird-has-wings>.")] {
            v.push(Op::new(format!("enum-parse with the {which} ASCII-like format: {text:?}"), move || {
                let mut own = f.e.clone();
                if which == "custom" {
                    own.statement.copula_property = "-has-";
                }
                match quiet_catch(AssertUnwindSafe(|| own.parse::<Narsese>(text).map(|n| show_cv(&cv_of(&n))).map_err(|_| ()))) {
                    Ok(Ok(s)) => s,
                    Ok(Err(())) => "Err".into(),
                    Err(p) => format!("PANIC: {p}"),
                }
            }));
        }
    }
    v.extend(crate::props::c08e::history_ops());
    v
}

fn residue_string(r: &narsese::api::NarseseOptions<narsese::enum_narsese::Budget, narsese::enum_narsese::Term, narsese::enum_narsese::Punctuation, narsese::enum_narsese::Stamp, narsese::enum_narsese::Truth>) -> String {
    format!(
        "budget={:?} term={} punct={:?} stamp={:?} truth={:?}",
        r.budget.as_ref().map(budget_bits),
        r.term.as_ref().map(|t| R::canon_of_term(t).show()).unwrap_or_else(|| "-".into()),
        r.punctuation,
        r.stamp,
        r.truth.as_ref().map(truth_bits)
    )
}

/// outcome of one parse, canonically: Err, or Ok(canonical value)
pub fn outcome(r: &Result<Narsese, String>) -> Result<CV, ()> {
    match r {
        Ok(n) => Ok(cv_of(n)),
        Err(_) => Err(()),
    }
}
fn show_outcome(o: &Result<CV, ()>) -> String {
    match o {
        Ok(c) => format!("Ok({})", show_cv(c)),
        Err(()) => "Err".into(),
    }
}

/// drive the real reused parser through `inputs`; returns per-position outcomes and the residue
/// left after the last input
pub fn step_all(f: &F, inputs: &[&str]) -> (Vec<Result<CV, ()>>, String) {
    let mut mp = MultiParser::new(f.e);
    let mut out = vec![];
    for s in inputs {
        let r = mp.step(s).map_err(|e| e.to_string());
        out.push(outcome(&r));
    }
    // the state is EVERY field of the reused ParseState except the (constant) format: what the five
    // slots still hold, plus the character buffer, its recorded length and the cursor. On correct
    // code the buffer is exactly the last input; a buffer that keeps stale characters beyond its
    // recorded length is hidden state and must not be merged away.
    let (env, len_env, head) = mp.buffer_view();
    let env_s: String = env.iter().collect();
    (out, format!("{} | env={:?} len_env={} head={}", residue_string(&mp.residue()), env_s, len_env, head))
}

pub const STATE_CAP: usize = 20_000;

/// repetition counts of the soak sweep (see `run`)
pub const SOAK_COUNTS: [usize; 7] = [1, 2, 3, 5, 10, 50, 300];
/// a much longer run, used for the inputs that are rejected (whatever a failing parse leaks - a counter, a
/// buffer - needs a while to add up when the failure is shallow): x^k y only
pub const SOAK_LONG: usize = 1200;

/// further inputs used as the repeated element of the soak sweep only: bracket towers 64 deep
/// (unterminated, terminated, over-closed) of every bracket kind, and a long garbage run
pub fn soak_extras(f: &F) -> Vec<String> {
    let c = &f.e.compound;
    let st = &f.e.statement;
    let mut v = vec![];
    let towers: Vec<(String, String)> = vec![
        (c.brackets_set_extension.0.to_string(), c.brackets_set_extension.1.to_string()),
        (c.brackets_set_intension.0.to_string(), c.brackets_set_intension.1.to_string()),
        (format!("{}{}{}", c.brackets.0, c.connecter_conjunction, c.separator), c.brackets.1.to_string()),
        (format!("{}a{}", st.brackets.0, st.copula_inheritance), st.brackets.1.to_string()),
    ];
    for (open, close) in towers {
        v.push(format!("{}a", open.repeat(64)));
        v.push(format!("{}a{}", open.repeat(64), close.repeat(64)));
        v.push(format!("{}a{}", open.repeat(8), close.repeat(11)));
        v.push(format!("{}a{}", open.repeat(64), close.repeat(32)));
        // towers that FAIL at the bottom (an unterminated bracket is leniently accepted, so the towers above all
        // succeed): nothing at all inside, and a character that cannot start a term
        v.push(open.repeat(64));
        v.push(format!("{}{}", open.repeat(64), f.e.sentence.punctuation_judgement));
        v.push(format!("{}{}{}", open.repeat(33), f.e.sentence.punctuation_judgement, close.repeat(33)));
    }
    v.push(c.brackets.1.repeat(100));
    v.push(format!("{}0.5", f.e.task.budget_brackets.0).repeat(40));
    v
}

#[derive(Clone, Debug)]
pub struct S {
    pub history: Vec<u8>,
    pub residue: String,
    pub bad: Option<String>,
}
impl PartialEq for S {
    fn eq(&self, o: &S) -> bool {
        self.residue == o.residue && self.bad == o.bad
    }
}
impl Eq for S {}
impl Hash for S {
    fn hash<H: Hasher>(&self, h: &mut H) {
        self.residue.hash(h);
        self.bad.hash(h);
    }
}

pub struct M {
    pub f: F,
    pub alpha: Vec<(&'static str, String)>,
    pub fresh: Vec<Result<CV, ()>>,
    pub explored: Arc<Mutex<Vec<Vec<u8>>>>,
    /// true: keep searching after a violation until the state space is exhausted
    pub exhaust: bool,
}

impl Model for M {
    type State = S;
    type Action = u8;
    fn init_states(&self) -> Vec<S> {
        let (_, residue) = step_all(&self.f, &[]);
        vec![S { history: vec![], residue, bad: None }]
    }
    fn actions(&self, s: &S, actions: &mut Vec<u8>) {
        if s.bad.is_none() {
            actions.extend(0..self.alpha.len() as u8);
        }
    }
    fn next_state(&self, last: &S, a: u8) -> Option<S> {
        let mut history = last.history.clone();
        history.push(a);
        self.explored.lock().unwrap().push(history.clone());
        let inputs: Vec<&str> = history.iter().map(|i| self.alpha[*i as usize].1.as_str()).collect();
        let res = quiet_catch(AssertUnwindSafe(|| step_all(&self.f, &inputs)));
        let (outs, residue) = match res {
            Ok(x) => x,
            Err(p) => return Some(S { history, residue: "<panic>".into(), bad: Some(format!("panic: {p}")) }),
        };
        let got = outs.last().unwrap();
        let want = &self.fresh[a as usize];
        let bad = if got != want {
            Some(format!(
                "after {:?} the input {:?} gives {} but parsed alone it gives {}",
                inputs[..inputs.len() - 1].to_vec(),
                inputs[inputs.len() - 1],
                show_outcome(got),
                show_outcome(want)
            ))
        } else {
            None
        };
        Some(S { history, residue, bad })
    }
    fn properties(&self) -> Vec<Property<Self>> {
        let mut v = vec![Property::always("each input parses as it does alone", |_, s: &S| s.bad.is_none())];
        if self.exhaust {
            // never satisfied: keeps the search going until the state space is exhausted
            v.push(Property::sometimes("(exhaust the state space)", |_, _| false));
        }
        v
    }
}

/// position-by-position agreement of the public parse_multi with fresh parses
pub fn check_sequence(f: &F, inputs: &[&str]) -> Result<(), String> {
    // the batch supplied through an iterator without any size information and through one with a
    // zero lower bound must give what the slice iterator gives
    {
        let show = |v: &Vec<Result<CV, ()>>| v.iter().map(show_outcome).collect::<Vec<_>>();
        let conv = |v: Vec<Result<Narsese, narsese::conversion::string::impl_enum::ParseError>>| v.into_iter().map(|r| outcome(&r.map_err(|e| e.to_string()))).collect::<Vec<_>>();
        let a = quiet_catch(AssertUnwindSafe(|| conv(f.e.parse_multi(inputs.iter().copied()))));
        let b = quiet_catch(AssertUnwindSafe(|| {
            let mut it = inputs.iter().copied();
            conv(f.e.parse_multi(std::iter::from_fn(move || it.next())))
        }));
        let c = quiet_catch(AssertUnwindSafe(|| conv(f.e.parse_multi(inputs.iter().copied().filter(|_| true)))));
        match (&a, &b, &c) {
            (Ok(x), Ok(y), Ok(z)) if x == y && x == z => {}
            (Ok(x), Ok(y), Ok(z)) => return Err(format!("parse_multi({inputs:?}) depends on how the inputs are supplied: slice iterator {:?}, from_fn {:?}, filter {:?}", show(x), show(y), show(z))),
            _ => return Err(format!("parse_multi({inputs:?}) panics for some way of supplying the inputs: slice iterator {:?}, from_fn {:?}, filter {:?}", a.as_ref().map(show), b.as_ref().map(show), c.as_ref().map(show))),
        }
    }
    let res = quiet_catch(AssertUnwindSafe(|| f.e.parse_multi(inputs.iter().copied())));
    let res = res.map_err(|p| format!("parse_multi({inputs:?}) panics: {p}"))?;
    if res.len() != inputs.len() {
        return Err(format!("parse_multi({inputs:?}) returns {} results", res.len()));
    }
    for (i, r) in res.into_iter().enumerate() {
        let got = outcome(&r.map_err(|e| e.to_string()));
        let want = outcome(&ops::parse_enum(f, inputs[i]));
        if got != want {
            return Err(format!(
                "parse_multi({inputs:?})[{i}] is {} but parse({:?}) is {}",
                show_outcome(&got),
                inputs[i],
                show_outcome(&want)
            ));
        }
    }
    Ok(())
}

/// for each generic parse target: `parse::<X>(s)` and `parse_chars::<X>(s.chars().collect())` give the same outcome
/// (both Err, or Ok with the same value)
pub fn target_routes_case(f: &F, s: &str) -> Result<(), String> {
    use narsese::enum_narsese::{Budget, Punctuation, Stamp, Truth};
    let f = *f;
    let s = s.to_string();
    match quiet_catch(AssertUnwindSafe(move || -> Result<(), String> {
        fn show<T: std::fmt::Debug, E>(r: Result<T, E>) -> String {
            match r {
                Ok(v) => format!("Ok({v:?})"),
                Err(_) => "Err".into(),
            }
        }
        let cs = || s.chars().collect::<Vec<char>>();
        let pairs: Vec<(&str, String, String)> = vec![
            ("Narsese", show(f.e.parse::<Narsese>(&s).map(|n| cv_of(&n))), show(f.e.parse_chars::<Narsese>(cs()).map(|n| cv_of(&n)))),
            ("NarseseOptions", show(f.e.parse::<crate::props::c04::Options>(&s).map(|o| residue_string(&o))), show(f.e.parse_chars::<crate::props::c04::Options>(cs()).map(|o| residue_string(&o)))),
            ("Truth", show(f.e.parse::<Truth>(&s).map(|t| truth_bits(&t))), show(f.e.parse_chars::<Truth>(cs()).map(|t| truth_bits(&t)))),
            ("Budget", show(f.e.parse::<Budget>(&s).map(|b| budget_bits(&b))), show(f.e.parse_chars::<Budget>(cs()).map(|b| budget_bits(&b)))),
            ("Stamp", show(f.e.parse::<Stamp>(&s)), show(f.e.parse_chars::<Stamp>(cs()))),
            ("Punctuation", show(f.e.parse::<Punctuation>(&s)), show(f.e.parse_chars::<Punctuation>(cs()))),
        ];
        for (target, a, b) in pairs {
            if a != b {
                return Err(format!("parse::<{target}> gives {a} but parse_chars::<{target}> on the same characters gives {b}"));
            }
        }
        Ok(())
    })) {
        Ok(r) => r,
        Err(p) => Err(format!("panic: {p}")),
    }
}

/// length (in characters) of the repeated input of the volume sweep, and its repetitions: 245 x 70 000 > 2^24
pub const VOLUME_LEN: usize = 70_000;
pub const VOLUME_REPS: usize = 245;

pub fn volume_input(f: &F, kind: &str) -> String {
    let c = &f.e.compound;
    match kind {
        "long_word" => "w".repeat(VOLUME_LEN),
        "wide_product" => {
            let mut s = format!("{}{}", c.brackets.0, c.connecter_product);
            while s.chars().count() < VOLUME_LEN {
                s.push_str(c.separator);
                s.push_str("ab");
            }
            s.push_str(c.brackets.1);
            s
        }
        _ => c.brackets.1.repeat(VOLUME_LEN),
    }
}

/// `x` repeated `k` times, then the whole quick alphabet, in ONE parse_multi batch: every position must give what
/// the input gives when parsed alone
pub fn volume_case(f: &F, kind: &str, k: usize) -> Result<(), String> {
    let x = volume_input(f, kind);
    let alpha = alphabet(f);
    let fresh_x = outcome(&ops::parse_enum(f, &x));
    let fresh: Vec<Result<CV, ()>> = alpha.iter().map(|(_, s)| outcome(&ops::parse_enum(f, s))).collect();
    let mut inputs: Vec<&str> = std::iter::repeat(x.as_str()).take(k).collect();
    inputs.extend(alpha.iter().map(|(_, s)| s.as_str()));
    let got = quiet_catch(AssertUnwindSafe(|| f.e.parse_multi(inputs.iter().copied()).into_iter().map(|r| outcome(&r.map_err(|e| e.to_string()))).collect::<Vec<_>>()))
        .map_err(|p| format!("parse_multi over a {kind} of {VOLUME_LEN} characters x {k}, then the alphabet, panics: {p}"))?;
    if got.len() != inputs.len() {
        return Err(format!("parse_multi over a {kind} of {VOLUME_LEN} characters x {k}, then the alphabet, returns {} results for {} inputs", got.len(), inputs.len()));
    }
    for (p, g) in got.iter().enumerate() {
        let want = if p < k { &fresh_x } else { &fresh[p - k] };
        if g != want {
            let what = if p < k { format!("repetition {p} of the {kind}") } else { format!("{:?}", alpha[p - k].1) };
            let shown = |o: &Result<CV, ()>| { let t = show_outcome(o); if t.len() > 300 { format!("{}...", t.chars().take(300).collect::<String>()) } else { t } };
            return Err(format!("parse_multi over a {kind} of {VOLUME_LEN} characters x {k}, then the alphabet: position {p} ({what}, after {} characters) gives {} but parsed alone it gives {}", p.min(k) * VOLUME_LEN, shown(g), shown(want)));
        }
    }
    Ok(())
}

pub fn replay_case(c: &J) -> Result<(), String> {
    let f = fmts::by_name(c["format"].as_str().unwrap_or("ascii"));
    let inputs: Vec<String> = c["inputs"].as_array().map(|a| a.iter().map(|s| s.as_str().unwrap_or("").to_string()).collect()).unwrap_or_default();
    let refs: Vec<&str> = inputs.iter().map(|s| s.as_str()).collect();
    match c["op"].as_str() {
        Some("target_routes") => target_routes_case(&f, c["input"].as_str().unwrap_or("")),
        Some("volume") => volume_case(&f, c["kind"].as_str().unwrap_or("long_word"), c["k"].as_u64().unwrap_or(VOLUME_REPS as u64) as usize),
        Some("soak") => {
            let (x, y) = (c["x"].as_str().unwrap_or(""), c["y"].as_str().unwrap_or(""));
            let k = c["k"].as_u64().unwrap_or(1) as usize;
            let mut inputs: Vec<&str> = vec![];
            if c["pattern"].as_u64() == Some(0) {
                inputs.extend(std::iter::repeat(x).take(k));
                inputs.push(y);
            } else {
                for _ in 0..k {
                    inputs.push(x);
                    inputs.push(y);
                }
            }
            check_sequence(&f, &inputs)
        }
        Some("lexical_sequence") => check_lexical_sequence(&f, &refs),
        _ => check_sequence(&f, &refs),
    }
}

pub fn check_lexical_sequence(f: &F, inputs: &[&str]) -> Result<(), String> {
    // reference answers first (each from one call), then the sequence, then the references again
    let alone: Vec<_> = inputs.iter().map(|s| (f.l.parse(s).map_err(|e| e.to_string()), f.l.parse_term(s).map_err(|e| e.to_string()))).collect();
    for (i, s) in inputs.iter().enumerate() {
        let now = (f.l.parse(s).map_err(|e| e.to_string()), f.l.parse_term(s).map_err(|e| e.to_string()));
        let same = |a: &Result<_, String>, b: &Result<_, String>| match (a, b) {
            (Ok(x), Ok(y)) => x == y,
            (Err(_), Err(_)) => true,
            _ => false,
        };
        if !same(&now.0, &alone[i].0) {
            return Err(format!("lexical parse({s:?}) after {:?} differs from the same call made earlier", &inputs[..i]));
        }
        let same_t = match (&now.1, &alone[i].1) {
            (Ok(x), Ok(y)) => x == y,
            (Err(_), Err(_)) => true,
            _ => false,
        };
        if !same_t {
            return Err(format!("lexical parse_term({s:?}) after {:?} differs from the same call made earlier", &inputs[..i]));
        }
    }
    Ok(())
}

pub fn run(run: &Run) {
    run.rule(
        "per format an alphabet of 35 inputs (complete task/sentence/term, budget-/truth-/stamp-/\
         punctuation-only fragments, term without punctuation, out-of-range truth/budget after a \
         filled term, unterminated brackets, empty, garbage); stateright BFS over the residue of \
         the real reused parser to a fixpoint, every transition compared with a fresh parse; every \
         explored history replayed through the public parse_multi; hook-free sweep of ALL input \
         sequences of length <= 2 (4 thorough, over a 38-input alphabet) through parse_multi; soak sweep (x^k y and (x y)^k for k up to 300 over the alphabet plus 64-deep towers); parse_chars vs parse; repeated \
         parse; lexical parse / parse_term sequences on the shared static formats; distinct = \
         distinct residues reached + distinct sequences swept",
    );
    run.assume("states are merged on ALL fields of the reused ParseState except the constant format (mid_result, env, len_env, head), so merging is sound without assumptions about reset_to");
    let tier = run.tier;
    for f in fmts::all() {
        let alpha = if tier == Tier::Thorough { alphabet_thorough(&f) } else { alphabet(&f) };
        let fresh: Vec<Result<CV, ()>> = alpha.iter().map(|(_, s)| outcome(&ops::parse_enum(&f, s))).collect();
        run.bound(&format!("alphabet_{}", f.name), json!(alpha.len()));
        run.sample(json!({"format": f.name, "alphabet": alpha.iter().map(|(n, s)| format!("{n}: {s}")).collect::<Vec<_>>()}));
        // explicit-state search, twice (counts must agree: guards against hidden nondeterminism)
        let mut counts = vec![];
        let mut explored_all: Vec<Vec<u8>> = vec![];
        for round in 0..2 {
            let explored = Arc::new(Mutex::new(vec![]));
            let m = M { f, alpha: alpha.clone(), fresh: fresh.clone(), explored: explored.clone(), exhaust: true };
            // caps: on broken code the buffer can hold overlays of many earlier inputs and the state
            // space explodes; a capped search is reported as a cap (exhaustive = false), the verdict
            // comes from the shallowest-violation run and the sweeps either way
            let checker = m
                .checker()
                .threads(if round == 0 { 1 } else { 4 })
                .target_state_count(STATE_CAP)
                .timeout(std::time::Duration::from_secs(20))
                .spawn_bfs()
                .join();
            counts.push((checker.unique_state_count(), checker.state_count()));
            if round == 0 && checker.unique_state_count() >= STATE_CAP {
                run.cap(&format!("[{}] explicit-state search stopped at the cap of {} states", f.name, STATE_CAP));
            }
            if round == 0 {
                // a separate run that stops at the first (= shallowest) violation
                let m1 = M { f, alpha: alpha.clone(), fresh: fresh.clone(), explored: Arc::new(Mutex::new(vec![])), exhaust: false };
                let first = m1.checker().threads(1).target_state_count(STATE_CAP).timeout(std::time::Duration::from_secs(20)).spawn_bfs().join();
                if let Some(path) = first.discovery("each input parses as it does alone") {
                    let last = path.last_state().clone();
                    let inputs: Vec<String> = last.history.iter().map(|i| alpha[*i as usize].1.clone()).collect();
                    run.violation(
                        &format!("[{}] shortest violating history {:?}: {}", f.name, inputs, last.bad.clone().unwrap_or_default()),
                        json!({"op": "parse_sequence", "format": f.name, "inputs": inputs}),
                        &[],
                    );
                }
                run.add_states(checker.unique_state_count() as u64, explored.lock().unwrap().len() as u64);
                explored_all = explored.lock().unwrap().clone();
            }
        }
        if counts[0].0 != counts[1].0 && counts[0].0 < STATE_CAP {
            run.cap(&format!("[{}] two runs of the search disagree on the number of unique states: {:?}", f.name, counts));
        }
        run.count(&format!("residue_states_{}", f.name), counts[0].0 as u64);
        // bind to the public API: replay every explored history (+ it is itself one extra step
        // beyond the tree path) through parse_multi and compare with the hooked stepping
        explored_all.par_iter().for_each(|h| {
            let inputs: Vec<&str> = h.iter().map(|i| alpha[*i as usize].1.as_str()).collect();
            run.eval(1);
            let public = quiet_catch(AssertUnwindSafe(|| f.e.parse_multi(inputs.iter().copied())));
            let hooked = quiet_catch(AssertUnwindSafe(|| step_all(&f, &inputs)));
            match (public, hooked) {
                (Ok(p), Ok((hk, _))) => {
                    let p: Vec<_> = p.into_iter().map(|r| outcome(&r.map_err(|e| e.to_string()))).collect();
                    if p != hk {
                        run.violation(
                            &format!("[{}] parse_multi({inputs:?}) and the stepwise hook disagree: {:?} vs {:?}", f.name, p.iter().map(show_outcome).collect::<Vec<_>>(), hk.iter().map(show_outcome).collect::<Vec<_>>()),
                            json!({"op": "parse_sequence", "format": f.name, "inputs": inputs}),
                            &[],
                        );
                    } else {
                        run.add_traces(1);
                    }
                    if let Err(msg) = check_sequence(&f, &inputs) {
                        run.violation(&format!("[{}] {}", f.name, msg), json!({"op": "parse_sequence", "format": f.name, "inputs": inputs}), &[]);
                    }
                }
                (Err(p), _) | (_, Err(p)) => run.violation(&format!("[{}] panic on {inputs:?}: {p}", f.name), json!({"op": "parse_sequence", "format": f.name, "inputs": inputs}), &[]),
            }
        });
        // hook-free sweep of all sequences up to length L
        let l = tier.pick(2usize, 4usize);
        run.bound("hook_free_sequence_length", json!(l));
        let n = alpha.len();
        let total: usize = (1..=l).map(|k| n.pow(k as u32)).sum();
        (0..total).into_par_iter().for_each(|mut idx| {
            let mut len = 1;
            loop {
                let c = n.pow(len as u32);
                if idx < c {
                    break;
                }
                idx -= c;
                len += 1;
            }
            let mut inputs = vec![];
            for _ in 0..len {
                inputs.push(alpha[idx % n].1.as_str());
                idx /= n;
            }
            run.eval(1);
            if let Err(msg) = check_sequence(&f, &inputs) {
                run.violation(&format!("[{}] {}", f.name, msg), json!({"op": "parse_sequence", "format": f.name, "inputs": inputs}), &[]);
            }
            if len <= 2 {
                if let Err(msg) = check_lexical_sequence(&f, &inputs) {
                    run.violation(&format!("[{}] {}", f.name, msg), json!({"op": "lexical_sequence", "format": f.name, "inputs": inputs}), &[]);
                }
            }
        });
        run.add_distinct(total as u64 + counts[0].0 as u64);
        // every sequence of THREE inputs over a core alphabet (complete / partial / failing inputs, 14 of them) through
        // the public parse_multi: x (ok), y (rejected), x again is not a pair
        {
            let core: Vec<usize> = alpha.iter().enumerate().filter(|(_, (n, _))| ["task", "sentence", "sentence-bare", "term", "atom", "budget-only", "truth-only", "stamp-only", "budget-term", "truth-out-of-range", "unterminated-statement", "two-terms", "empty", "garbage"].contains(n)).map(|(i, _)| i).collect();
            let n3 = core.len();
            run.count(&format!("triples_over_core_alphabet_{}", f.name), (n3 * n3 * n3) as u64);
            (0..n3 * n3 * n3).into_par_iter().for_each(|code| {
                let idx = [core[code % n3], core[(code / n3) % n3], core[code / (n3 * n3)]];
                let inputs: Vec<&str> = idx.iter().map(|&i| alpha[i].1.as_str()).collect();
                run.eval(1);
                match quiet_catch(AssertUnwindSafe(|| f.e.parse_multi(inputs.iter().copied()).into_iter().map(|r| outcome(&r.map_err(|e| e.to_string()))).collect::<Vec<_>>())) {
                    Err(p) => run.violation(&format!("[{}] parse_multi over {inputs:?} panics: {p}", f.name), json!({"op": "parse_sequence", "format": f.name, "inputs": inputs}), &[]),
                    Ok(got) => {
                        if got.len() != 3 {
                            run.violation(&format!("[{}] parse_multi over {inputs:?} returns {} results", f.name, got.len()), json!({"op": "parse_sequence", "format": f.name, "inputs": inputs}), &[]);
                        } else if let Some(pos) = (0..3).find(|&p| got[p] != fresh[idx[p]]) {
                            run.violation(&format!("[{}] parse_multi over {inputs:?}: position {pos} gives {} but parsed alone it gives {}", f.name, show_outcome(&got[pos]), show_outcome(&fresh[idx[pos]])), json!({"op": "parse_sequence", "format": f.name, "inputs": inputs}), &[]);
                        }
                    }
                }
            });
        }
        // soak: long histories in one dimension. For every input x of the alphabet plus deep
        // unterminated / over-closed towers and a long garbage run, every input y, and every
        // k in SOAK_COUNTS: x repeated k times then y, and (x y) repeated k times, through the
        // public parse_multi; every position must agree with the fresh parse of that input.
        // (Breadth-first search merges states that look alike, so it cannot see a leak that only
        // adds up over hundreds of inputs.)
        {
            let mut soak: Vec<String> = alpha.iter().map(|(_, s)| s.clone()).collect();
            soak.extend(soak_extras(&f));
            let fresh_of = |s: &str| outcome(&ops::parse_enum(&f, s));
            let soak_fresh: Vec<_> = soak.iter().map(|s| fresh_of(s)).collect();
            run.bound("soak_repetitions", json!(SOAK_COUNTS));
            run.bound(&format!("soak_inputs_{}", f.name), json!(soak.len()));
            let pairs: Vec<(usize, usize)> = (0..soak.len()).flat_map(|i| (0..alpha.len()).map(move |j| (i, j))).collect();
            pairs.par_iter().for_each(|&(i, j)| {
                let (x, y) = (soak[i].as_str(), alpha[j].1.as_str());
                let long = if soak_fresh[i].is_err() && x.chars().count() <= 160 { Some(SOAK_LONG) } else { None };
                for &k in SOAK_COUNTS.iter().chain(long.iter()) {
                    for pattern in 0..2 {
                        if k == SOAK_LONG && pattern == 1 {
                            continue;
                        }
                        let mut inputs: Vec<&str> = vec![];
                        let mut want = vec![];
                        if pattern == 0 {
                            inputs.extend(std::iter::repeat(x).take(k));
                            want.extend(std::iter::repeat(&soak_fresh[i]).take(k));
                            inputs.push(y);
                            want.push(&fresh[j]);
                        } else {
                            for _ in 0..k {
                                inputs.push(x);
                                want.push(&soak_fresh[i]);
                                inputs.push(y);
                                want.push(&fresh[j]);
                            }
                        }
                        run.eval(1);
                        let res = quiet_catch(AssertUnwindSafe(|| f.e.parse_multi(inputs.iter().copied()).into_iter().map(|r| outcome(&r.map_err(|e| e.to_string()))).collect::<Vec<_>>()));
                        let what = if pattern == 0 { format!("{x:?} x {k}, then {y:?}") } else { format!("({x:?}, {y:?}) x {k}") };
                        let case = json!({"op": "soak", "format": f.name, "x": x, "y": y, "k": k, "pattern": pattern});
                        match res {
                            Err(p) => run.violation(&format!("[{}] parse_multi over {what} panics: {p}", f.name), case, &[]),
                            Ok(got) => {
                                if got.len() != want.len() {
                                    run.violation(&format!("[{}] parse_multi over {what} returns {} results for {} inputs", f.name, got.len(), want.len()), case, &[]);
                                } else if let Some(pos) = (0..got.len()).find(|&p| &got[p] != want[p]) {
                                    run.violation(&format!("[{}] parse_multi over {what}: position {pos} ({:?}) gives {} but parsed alone it gives {}", f.name, inputs[pos], show_outcome(&got[pos]), show_outcome(want[pos])), case, &[]);
                                }
                            }
                        }
                    }
                }
            });
            run.add_distinct((pairs.len() * SOAK_COUNTS.len() * 2) as u64);
        }
        // formats derived from a used format by Clone + edit (see c08e.rs)
        for edit in crate::props::c08e::EDITS {
            for which in ["lexical", "enum"] {
                run.eval(1);
                run.add_distinct(1);
                let r = if which == "enum" { crate::props::c08e::case_enum(&f, edit) } else { crate::props::c08e::case_lex(&f, edit) };
                if let Err(e) = r {
                    run.violation(&e, json!({"op": "edited_clone", "format": f.name, "edit": edit, "which": which}), &[]);
                }
            }
        }
        // "parsing from a character vector equals parsing from the string" for EVERY generic target of the two entry
        // points (the whole value, the item-wise result, and the stand-alone truth / budget / stamp / punctuation
        // parsers), on every input of the thorough alphabet (it holds the empty string, a blank, and every item alone)
        {
            let inputs = alphabet_thorough(&f);
            for (n, s) in &inputs {
                run.eval(6);
                run.add_distinct(1);
                if let Err(e) = target_routes_case(&f, s) {
                    run.violation(&format!("[{}] input {n} {s:?}: {e}", f.name), json!({"op": "target_routes", "format": f.name, "input": s}), &[]);
                }
            }
        }
        // volume: one parse_multi batch that reads more than 2^24 characters in total before the alphabet is parsed
        // (a running total - "characters read so far", "bytes allocated so far" - needs volume, not many calls, to
        // cross a threshold; 2^16 and 2^20 are crossed on the way, and the results in between are checked too)
        {
            let kinds: &[&str] = &["long_word", "wide_product", "rejected_run"];
            for kind in kinds {
                run.eval(1);
                run.add_distinct(1);
                let _big = crate::watch::enter_with_limit(|| format!("volume batch {kind} [{}]", f.name), crate::watch::BIG_CASE_LIMIT_S);
                if let Err(e) = volume_case(&f, kind, VOLUME_REPS) {
                    run.violation(&format!("[{}] {e}", f.name), json!({"op": "volume", "format": f.name, "kind": kind, "k": VOLUME_REPS}), &[]);
                }
            }
            run.bound("volume_characters_per_batch", json!(VOLUME_REPS * VOLUME_LEN));
        }
        // the three public routes agree on every string the formatter prints for a value universe:
        // parse(s), parse_chars(s.chars()), parse_multi([s])[0], parse_multi([s, s])[1]
        let mut vals: Vec<V> = crate::universe::u_term(&f, Tier::Quick).into_iter().map(V::term).collect();
        vals.extend(crate::universe::u_sent_cover(&f));
        if tier == Tier::Thorough {
            vals.extend(crate::universe::u_sent(&f));
        }
        run.count(&format!("route_agreement_values_{}", f.name), vals.len() as u64);
        run.add_distinct(vals.len() as u64);
        vals.par_iter().for_each(|v| {
            let v2 = v.clone();
            let Ok(s) = quiet_catch(AssertUnwindSafe(move || f.e.format_narsese(&v2.build()))) else { return };
            run.eval(3);
            let a = outcome(&ops::parse_enum(&f, &s));
            let b = quiet_catch(AssertUnwindSafe(|| outcome(&f.e.parse_chars::<Narsese>(s.chars().collect()).map_err(|e| e.to_string()))));
            let m = quiet_catch(AssertUnwindSafe(|| f.e.parse_multi([s.as_str(), s.as_str()]).into_iter().map(|r| outcome(&r.map_err(|e| e.to_string()))).collect::<Vec<_>>()));
            let bad = match (&b, &m) {
                (Ok(b), Ok(m)) => {
                    if *b != a {
                        Some(format!("parse_chars gives {} but parse gives {}", show_outcome(b), show_outcome(&a)))
                    } else if m.len() != 2 || m[0] != a || m[1] != a {
                        Some(format!("parse_multi([s, s]) gives {:?} but parse gives {}", m.iter().map(show_outcome).collect::<Vec<_>>(), show_outcome(&a)))
                    } else {
                        None
                    }
                }
                _ => Some("parse_chars / parse_multi panics".to_string()),
            };
            if let Some(msg) = bad {
                run.violation(&format!("[{}] {s:?}: {msg}", f.name), json!({"op": "parse_sequence", "format": f.name, "inputs": [s, s]}), &[]);
            }
        });
        // invisible / special code points at the very start, the very end and both ends of every
        // alphabet input: the string routes (parse, parse_multi) and the character-vector route
        // (parse_chars) must still agree, whatever the outcome is
        let specials = ['\u{feff}', '\u{200b}', '\u{a0}', '\u{0}', '\u{c}', '\r', '\n', '\t', '\u{2028}', '\u{85}', '\u{3000}', '\u{202e}', '\u{fffd}', '\u{e0001}'];
        let mut special_inputs: Vec<String> = vec![];
        for (_, base) in &alpha {
            for c in specials {
                special_inputs.push(format!("{c}{base}"));
                special_inputs.push(format!("{base}{c}"));
                special_inputs.push(format!("{c}{base}{c}"));
            }
        }
        run.count(&format!("special_code_point_inputs_{}", f.name), special_inputs.len() as u64);
        run.add_distinct(special_inputs.len() as u64);
        special_inputs.par_iter().for_each(|s| {
            run.eval(3);
            let a = outcome(&ops::parse_enum(&f, s));
            let b = quiet_catch(AssertUnwindSafe(|| outcome(&f.e.parse_chars::<Narsese>(s.chars().collect()).map_err(|e| e.to_string()))));
            // after the same text without the special characters, and before it
            let plain: String = s.chars().filter(|c| !specials.contains(c)).collect();
            let m = quiet_catch(AssertUnwindSafe(|| f.e.parse_multi([plain.as_str(), s.as_str(), plain.as_str(), s.as_str()]).into_iter().map(|r| outcome(&r.map_err(|e| e.to_string()))).collect::<Vec<_>>()));
            let p = outcome(&ops::parse_enum(&f, &plain));
            let bad = match (&b, &m) {
                (Ok(b), Ok(m)) => {
                    if *b != a {
                        Some(format!("parse_chars gives {} but parse gives {}", show_outcome(b), show_outcome(&a)))
                    } else if m.len() != 4 || m[0] != p || m[1] != a || m[2] != p || m[3] != a {
                        Some(format!("parse_multi([plain, s, plain, s]) gives {:?} but parse gives {} for plain and {} for s", m.iter().map(show_outcome).collect::<Vec<_>>(), show_outcome(&p), show_outcome(&a)))
                    } else {
                        None
                    }
                }
                _ => Some("parse_chars / parse_multi panics".to_string()),
            };
            if let Some(msg) = bad {
                run.violation(&format!("[{}] {s:?}: {msg}", f.name), json!({"op": "parse_sequence", "format": f.name, "inputs": [plain, s, plain, s]}), &[]);
            }
        });
        // every code point of the BMP (thorough: every scalar value) at the start, at the end and at both
        // ends of a complete sentence and of a bare term: the three routes must agree
        {
            let bases = [alpha.iter().find(|(n, _)| *n == "sentence-bare").map(|(_, s)| s.clone()).unwrap_or_default(), "a".to_string()];
            let top: u32 = if tier == Tier::Thorough { 0x10FFFF } else { 0xFFFF };
            let extra: Vec<u32> = if tier == Tier::Thorough { vec![] } else { (0x10000u32..=0x10FFFF).step_by(61).collect() };
            let cps: Vec<char> = (0..=top).chain(extra).filter_map(char::from_u32).collect();
            run.count(&format!("code_points_wrapped_around_inputs_{}", f.name), cps.len() as u64);
            cps.par_iter().for_each(|&c| {
                for base in &bases {
                    for s in [format!("{c}{base}"), format!("{base}{c}"), format!("{c}{base}{c}")] {
                        run.eval(3);
                        let a = outcome(&ops::parse_enum(&f, &s));
                        let b = quiet_catch(AssertUnwindSafe(|| outcome(&f.e.parse_chars::<Narsese>(s.chars().collect()).map_err(|e| e.to_string()))));
                        let m = quiet_catch(AssertUnwindSafe(|| f.e.parse_multi([s.as_str()]).into_iter().map(|r| outcome(&r.map_err(|e| e.to_string()))).collect::<Vec<_>>()));
                        let bad = match (&b, &m) {
                            (Ok(b), Ok(m)) => {
                                if *b != a {
                                    Some(format!("parse_chars gives {} but parse gives {}", show_outcome(b), show_outcome(&a)))
                                } else if m.len() != 1 || m[0] != a {
                                    Some(format!("parse_multi([s]) gives {:?} but parse gives {}", m.iter().map(show_outcome).collect::<Vec<_>>(), show_outcome(&a)))
                                } else {
                                    None
                                }
                            }
                            _ => Some("parse_chars / parse_multi panics".to_string()),
                        };
                        if let Some(msg) = bad {
                            run.violation(&format!("[{}] {s:?}: {msg}", f.name), json!({"op": "parse_sequence", "format": f.name, "inputs": [s]}), &[]);
                        }
                    }
                }
            });
        }
        // parse_chars == parse, parse twice
        for (_, s) in &alpha {
            run.eval(2);
            let a = outcome(&ops::parse_enum(&f, s));
            let b = outcome(&f.e.parse_chars::<Narsese>(s.chars().collect()).map_err(|e| e.to_string()));
            let c2 = outcome(&ops::parse_enum(&f, s));
            if a != b {
                run.violation(&format!("[{}] parse_chars({s:?}) is {} but parse is {}", f.name, show_outcome(&b), show_outcome(&a)), json!({"op": "parse_sequence", "format": f.name, "inputs": [s]}), &[]);
            }
            if a != c2 {
                run.violation(&format!("[{}] parsing {s:?} twice gives different results", f.name), json!({"op": "parse_sequence", "format": f.name, "inputs": [s, s]}), &[]);
            }
        }
    }    // E5: state hidden outside the parser object (thread-locals, statics): every ordered pair of
    // calls over all pipelines and formats, each pair on a brand-new thread, against fresh-process baselines
    run.rule("call histories: every ordered pair of (pipeline, format, input) calls on a brand-new thread vs the same call in a fresh process");
    crate::history::explore(run, "C08", &crate::history::numbered(history_ops()), 2, &[]);
}
