//! C08, formats of the caller's own that were derived from a shipped one: "the format" of the property is any
//! format value, and the usual way to get one is to clone a shipped format - possibly one that has already been
//! used for parsing - and edit its public tables. Whatever a format instance remembers from the parses it served
//! (a lazily built index of its keywords, a cache keyed by text) travels with `Clone`; the edited clone must
//! nevertheless parse exactly as a format that was edited before its first use.

use crate::emit;
use crate::fmts::{self, F};
use crate::model::*;
use crate::report::quiet_catch;
use narsese::conversion::string::impl_enum::NarseseFormat as EnumFormat;
use narsese::conversion::string::impl_lexical::format_instances as lf;
use narsese::conversion::string::impl_lexical::NarseseFormat as LexFormat;
use narsese::enum_narsese::Narsese;
use std::panic::AssertUnwindSafe;

pub const EDITS: &[&str] = &["copula", "connecter", "prefix", "punctuation", "separator", "compound_brackets", "statement_brackets"];

/// the new keyword(s) an edit introduces
fn new_kw(edit: &str) -> (&'static str, &'static str) {
    match edit {
        "copula" => ("is", ""),
        "connecter" => ("+", ""),
        "prefix" => ("@", ""),
        "punctuation" => ("\u{a1}", ""),
        "separator" => ("|", ""),
        "compound_brackets" => ("\u{27e8}", "\u{27e9}"),
        _ => ("\u{27e6}", "\u{27e7}"),
    }
}

pub fn fresh_lex(name: &str) -> LexFormat {
    match name {
        "ascii" => lf::create_format_ascii(),
        "latex" => lf::create_format_latex(),
        _ => lf::create_format_han(),
    }
}

pub fn edit_lex(fm: &mut LexFormat, edit: &str) {
    let (a, b) = new_kw(edit);
    match edit {
        "copula" => fm.statement.copulas.insert(a.to_string()),
        "connecter" => fm.compound.connecters.insert(a.to_string()),
        "prefix" => fm.atom.prefixes.insert(a.to_string()),
        "punctuation" => fm.sentence.punctuations.insert(a.to_string()),
        "separator" => fm.compound.separator = a.to_string(),
        "compound_brackets" => fm.compound.brackets = (a.to_string(), b.to_string()),
        _ => fm.statement.brackets = (a.to_string(), b.to_string()),
    }
}

pub fn edit_enum(fm: &mut EnumFormat<&'static str>, edit: &str) {
    let (a, b) = new_kw(edit);
    match edit {
        "copula" => fm.statement.copula_inheritance = a,
        "connecter" => fm.compound.connecter_product = a,
        "prefix" => fm.atom.prefix_operator = a,
        "punctuation" => fm.sentence.punctuation_judgement = a,
        "separator" => fm.compound.separator = a,
        "compound_brackets" => fm.compound.brackets = (a, b),
        _ => fm.statement.brackets = (a, b),
    }
}

/// (the stock text of a small value that uses the keyword the edit replaces, the same text with the new keyword)
pub fn texts(f: &F, edit: &str) -> (String, String) {
    let e = f.e;
    let (a, b) = new_kw(edit);
    let inh = R::pair(Tag::Inh, R::word("robin"), R::word("b1"));
    let prod = R::node(Tag::Product, vec![R::word("a"), R::word("b1")]);
    let j = e.sentence.punctuation_judgement;
    let stock_of = |r: &R| emit::join(&emit::term_toks(f, r), "");
    match edit {
        "copula" => {
            let s = format!("{}{j}", stock_of(&inh));
            (s.clone(), s.replacen(e.statement.copula_inheritance, a, 1))
        }
        "connecter" => {
            let s = stock_of(&prod);
            (s.clone(), s.replacen(e.compound.connecter_product, a, 1))
        }
        "prefix" => {
            let s = stock_of(&R::pair(Tag::Inh, R::atom(Tag::Operator, "go"), R::word("b1")));
            (s.clone(), s.replacen(e.atom.prefix_operator, a, 1))
        }
        "punctuation" => {
            let s = stock_of(&inh);
            (format!("{s}{j}"), format!("{s}{a}"))
        }
        "separator" => {
            let s = stock_of(&prod);
            (s.clone(), s.replace(e.compound.separator, a))
        }
        "compound_brackets" => {
            let s = stock_of(&prod);
            let inner = s.strip_prefix(e.compound.brackets.0).and_then(|x| x.strip_suffix(e.compound.brackets.1)).unwrap_or(&s).to_string();
            (s.clone(), format!("{a}{inner}{b}"))
        }
        _ => {
            let s = stock_of(&inh);
            let inner = s.strip_prefix(e.statement.brackets.0).and_then(|x| x.strip_suffix(e.statement.brackets.1)).unwrap_or(&s).to_string();
            (format!("{s}{j}"), format!("{a}{inner}{b}{j}"))
        }
    }
}

fn lex_outcome(fm: &LexFormat, s: &str) -> String {
    match quiet_catch(AssertUnwindSafe(|| fm.parse(s).map_err(|_| ()))) {
        Ok(Ok(x)) => format!("{x:?}"),
        Ok(Err(())) => "Err".into(),
        Err(p) => format!("PANIC: {p}"),
    }
}

fn enum_outcome(fm: &EnumFormat<&'static str>, s: &str) -> String {
    match quiet_catch(AssertUnwindSafe(|| fm.parse::<Narsese>(s).map(|n| show_cv(&cv_of(&n))).map_err(|_| ()))) {
        Ok(Ok(x)) => x,
        Ok(Err(())) => "Err".into(),
        Err(p) => format!("PANIC: {p}"),
    }
}

/// texts a format serves before it is cloned (a sentence, a compound, a task, something it rejects)
fn warm_texts(f: &F) -> Vec<String> {
    crate::props::c08::alphabet(f).into_iter().map(|(_, s)| s).collect()
}

/// A lexical format that has served parses, then cloned and edited, parses like one edited before its first use;
/// the format it was cloned from is not affected by the edit; the same for a clone of the shipped static instance.
pub fn case_lex(f: &F, edit: &str) -> Result<(), String> {
    let (stock, new) = texts(f, edit);
    let warm = warm_texts(f);
    let mut pristine = fresh_lex(f.name);
    let stock_before: Vec<String> = warm.iter().chain([&stock, &new]).map(|s| lex_outcome(&pristine, s)).collect();
    edit_lex(&mut pristine, edit);
    let want: Vec<String> = [&new, &stock].iter().map(|s| lex_outcome(&pristine, s)).collect();
    // 1: used, then cloned, then edited
    let used = fresh_lex(f.name);
    for s in warm.iter().chain([&stock, &new]) {
        let _ = lex_outcome(&used, s);
    }
    let mut derived = used.clone();
    edit_lex(&mut derived, edit);
    let got: Vec<String> = [&new, &stock].iter().map(|s| lex_outcome(&derived, s)).collect();
    if got != want {
        return Err(format!(
            "lexical {} format used for {} parses, then cloned, then edited ({edit}): parses {new:?} / {stock:?} as {got:?}, but the same format edited before its first use gives {want:?}",
            f.name,
            warm.len() + 2
        ));
    }
    // 2: the original is what it was
    let stock_after: Vec<String> = warm.iter().chain([&stock, &new]).map(|s| lex_outcome(&used, s)).collect();
    if stock_after != stock_before {
        return Err(format!("lexical {} format: after a CLONE of it was edited ({edit}), the original parses its texts differently from an unedited format", f.name));
    }
    // 3: a clone of the shipped instance (which this process may have used any number of times)
    for s in [&stock, &new] {
        let _ = lex_outcome(f.l, s);
    }
    let mut derived2 = f.l.clone();
    edit_lex(&mut derived2, edit);
    let got2: Vec<String> = [&new, &stock].iter().map(|s| lex_outcome(&derived2, s)).collect();
    if got2 != want {
        return Err(format!("a clone of the SHIPPED lexical {} format, edited ({edit}): parses {new:?} / {stock:?} as {got2:?}, but a newly created format with the same edit gives {want:?}", f.name));
    }
    // 4: edited, used, cloned back and the edit undone by assigning the stock tables again
    let mut back = derived.clone();
    let stock_fm = fresh_lex(f.name);
    back.statement.copulas = stock_fm.statement.copulas.clone();
    back.compound.connecters = stock_fm.compound.connecters.clone();
    back.atom.prefixes = stock_fm.atom.prefixes.clone();
    back.sentence.punctuations = stock_fm.sentence.punctuations.clone();
    back.compound.separator = stock_fm.compound.separator.clone();
    back.compound.brackets = stock_fm.compound.brackets.clone();
    back.statement.brackets = stock_fm.statement.brackets.clone();
    let got3: Vec<String> = warm.iter().chain([&stock, &new]).map(|s| lex_outcome(&back, s)).collect();
    if got3 != stock_before {
        return Err(format!("lexical {} format edited ({edit}), used, cloned and given the stock tables again: parses its texts differently from a stock format", f.name));
    }
    Ok(())
}

/// the same for the enum format (a plain value: copied, used, copied again, edited)
pub fn case_enum(f: &F, edit: &str) -> Result<(), String> {
    let (stock, new) = texts(f, edit);
    let warm = warm_texts(f);
    let mut pristine: EnumFormat<&'static str> = match f.name {
        "ascii" => narsese::conversion::string::impl_enum::format_instances::FORMAT_ASCII,
        "latex" => narsese::conversion::string::impl_enum::format_instances::FORMAT_LATEX,
        _ => narsese::conversion::string::impl_enum::format_instances::FORMAT_HAN,
    };
    let stock_before: Vec<String> = warm.iter().chain([&stock, &new]).map(|s| enum_outcome(&pristine, s)).collect();
    let mut pristine2 = pristine.clone();
    edit_enum(&mut pristine, edit);
    let want: Vec<String> = [&new, &stock].iter().map(|s| enum_outcome(&pristine, s)).collect();
    // used (pristine2 served nothing yet: use it now), then cloned, then edited
    for s in warm.iter().chain([&stock, &new]) {
        let _ = enum_outcome(&pristine2, s);
    }
    let mut derived = pristine2.clone();
    edit_enum(&mut derived, edit);
    let got: Vec<String> = [&new, &stock].iter().map(|s| enum_outcome(&derived, s)).collect();
    if got != want {
        return Err(format!("enum {} format used, then cloned, then edited ({edit}): parses {new:?} / {stock:?} as {got:?}, but the same format edited before its first use gives {want:?}", f.name));
    }
    let after: Vec<String> = warm.iter().chain([&stock, &new]).map(|s| enum_outcome(&pristine2, s)).collect();
    if after != stock_before {
        return Err(format!("enum {} format: after a clone of it was edited ({edit}), the original parses its texts differently", f.name));
    }
    // the instance the harness shares, which this process has used many times
    let mut derived2 = f.e.clone();
    edit_enum(&mut derived2, edit);
    let got2: Vec<String> = [&new, &stock].iter().map(|s| enum_outcome(&derived2, s)).collect();
    if got2 != want {
        return Err(format!("a clone of the shared enum {} format, edited ({edit}): parses {new:?} / {stock:?} as {got2:?}, but a fresh copy of the shipped constant with the same edit gives {want:?}", f.name));
    }
    // edit in place, use, edit back in place (one instance, two vocabularies in a row)
    pristine2 = derived;
    let _ = enum_outcome(&pristine2, &new);
    let stock_fm = f.e.clone();
    pristine2.statement.copula_inheritance = stock_fm.statement.copula_inheritance;
    pristine2.compound.connecter_product = stock_fm.compound.connecter_product;
    pristine2.atom.prefix_operator = stock_fm.atom.prefix_operator;
    pristine2.sentence.punctuation_judgement = stock_fm.sentence.punctuation_judgement;
    pristine2.compound.separator = stock_fm.compound.separator;
    pristine2.compound.brackets = stock_fm.compound.brackets;
    pristine2.statement.brackets = stock_fm.statement.brackets;
    let back: Vec<String> = warm.iter().chain([&stock, &new]).map(|s| enum_outcome(&pristine2, s)).collect();
    if back != stock_before {
        return Err(format!("enum {} format edited ({edit}), used, and edited back: parses its texts differently from the stock format", f.name));
    }
    Ok(())
}

/// E5 ops: an edited clone of the SHIPPED instances (the baseline process has never used them; a history has)
pub fn history_ops() -> Vec<crate::history::Op> {
    use crate::history::Op;
    let mut v = vec![];
    for f in fmts::all() {
        for edit in ["copula", "connecter", "prefix", "compound_brackets"] {
            let (stock, new) = texts(&f, edit);
            let (s1, n1) = (stock.clone(), new.clone());
            v.push(Op::new(format!("lexical-parse with a clone of the shipped {} format edited ({edit}): {new:?} and {stock:?}", f.name), move || {
                let mut own = f.l.clone();
                edit_lex(&mut own, edit);
                format!("{} / {}", lex_outcome(&own, &n1), lex_outcome(&own, &s1))
            }));
            if edit == "copula" || edit == "prefix" {
                let (s2, n2) = (stock.clone(), new.clone());
                v.push(Op::new(format!("enum-parse with a copy of the {} format edited ({edit}): {new:?} and {stock:?}", f.name), move || {
                    let mut own = f.e.clone();
                    edit_enum(&mut own, edit);
                    format!("{} / {}", enum_outcome(&own, &n2), enum_outcome(&own, &s2))
                }));
            }
        }
    }
    v
}

pub fn replay_case(c: &serde_json::Value) -> Result<(), String> {
    let f = fmts::by_name(c["format"].as_str().unwrap_or("ascii"));
    let edit = c["edit"].as_str().unwrap_or("copula").to_string();
    if c["which"].as_str() == Some("enum") {
        case_enum(&f, &edit)
    } else {
        case_lex(&f, &edit)
    }
}
