//! C09 - whitespace between tokens never changes what is parsed.

use crate::emit;
use crate::fmts::{self, F};
use crate::model::*;
use crate::ops;
use crate::props::c01;
use crate::props::c10::{run_pipe, Pipe};
use crate::report::{quiet_catch, Run, Tier};
use std::panic::AssertUnwindSafe;
use crate::universe as u;
use narsese::enum_narsese::Narsese;
use rayon::prelude::*;
use serde_json::{json, Value as J};

/// all spacings at <= 1 deviation from "no spaces" and from "spaces everywhere"
pub fn spacings(toks: &[String], space: &str, out: &mut Vec<String>) {
    let n = toks.len();
    let none: Vec<&str> = vec![""; n + 1];
    out.push(emit::join_with(toks, &none));
    let two = format!("{space}{space}");
    let all2: Vec<&str> = vec![two.as_str(); n + 1];
    out.push(emit::join_with(toks, &all2));
    let mut all1: Vec<&str> = vec![space; n + 1];
    all1[0] = "";
    all1[n] = "";
    out.push(emit::join_with(toks, &all1));
    for i in 0..=n {
        let mut s = none.clone();
        s[i] = space;
        out.push(emit::join_with(toks, &s));
        let mut s: Vec<&str> = vec![space; n + 1];
        s[i] = "";
        out.push(emit::join_with(toks, &s));
    }
}

/// thorough: all spacings with <= 2 deviations from "no spaces"
pub fn spacings2(toks: &[String], space: &str, out: &mut Vec<String>) {
    let n = toks.len();
    for i in 0..=n {
        for j in (i + 1)..=n {
            let mut s: Vec<&str> = vec![""; n + 1];
            s[i] = space;
            s[j] = space;
            out.push(emit::join_with(toks, &s));
        }
    }
}

pub fn check(f: &F, p: Pipe, s: &str, expect: &CV) -> Result<(), String> {
    match run_pipe(f, p, s) {
        Ok(n) => {
            let got = cv_of(&n);
            if &got != expect {
                Err(format!("{p:?} {s:?} parses to {} instead of {}", show_cv(&got), show_cv(expect)))
            } else if p == Pipe::Enum {
                // the character-vector route of the enum parser on the same spacing
                let f2 = *f;
                let chars: Vec<char> = s.chars().collect();
                match quiet_catch(AssertUnwindSafe(move || f2.e.parse_chars::<Narsese>(chars).map(|n| cv_of(&n)).map_err(|e| e.to_string()))) {
                    Ok(Ok(cv)) if &cv == expect => Ok(()),
                    Ok(Ok(cv)) => Err(format!("parse_chars on {s:?} gives {} instead of {}", show_cv(&cv), show_cv(expect))),
                    Ok(Err(e)) => Err(format!("parse_chars rejects {s:?} ({e}) although parse accepts it as {}", show_cv(expect))),
                    Err(p) => Err(format!("parse_chars panics on {s:?}: {p}")),
                }
            } else {
                Ok(())
            }
        }
        Err(e) => Err(format!("{p:?} {s:?} is rejected ({e}); without the extra/missing spaces it means {}", show_cv(expect))),
    }
}

pub fn check_chars_stripped(f: &F, s: &str, expect: &CV) -> Result<(), String> {
    // the body of enum_nse!'s @PARSE rule
    let chars: Vec<char> = s.chars().filter(|c| !c.is_whitespace()).collect();
    match f.e.parse_chars::<Narsese>(chars).map_err(|e| e.to_string()) {
        Ok(n) => {
            let got = cv_of(&n);
            if &got != expect {
                Err(format!("parse_chars(strip_whitespace({s:?})) gives {} instead of {}", show_cv(&got), show_cv(expect)))
            } else {
                Ok(())
            }
        }
        Err(e) => Err(format!("parse_chars(strip_whitespace({s:?})) is rejected: {e}")),
    }
}

pub fn replay_case(c: &J) -> Result<(), String> {
    let f = fmts::by_name(c["format"].as_str().unwrap_or("ascii"));
    let expect = V::from_json(&c["value"]).canon();
    let s = c["input"].as_str().unwrap_or("");
    if c["op"].as_str() == Some("spacing_batch") {
        let inputs: Vec<String> = c["inputs"].as_array().map(|a| a.iter().filter_map(|x| x.as_str().map(String::from)).collect()).unwrap_or_default();
        let rs = f.e.parse_multi(inputs.iter().map(|x| x.as_str()));
        for (i, r) in rs.into_iter().enumerate() {
            match r {
                Ok(n) if cv_of(&n) == expect => {}
                Ok(n) => return Err(format!("position {i}: {:?} parses to {}", inputs[i], show_cv(&cv_of(&n)))),
                Err(e) => {
                    if check(&f, Pipe::Enum, &inputs[i], &expect).is_ok() {
                        return Err(format!("position {i}: {:?} is rejected in the batch ({e}) but accepted alone", inputs[i]));
                    }
                }
            }
        }
        return Ok(());
    }
    match c["pipeline"].as_str() {
        Some("LexFold") => check(&f, Pipe::LexFold, s, &expect),
        Some("LexRoutes") => ops::lexical_routes_agree(&f, s, c["reference"].as_str().unwrap_or(s)),
        Some("CharsStripped") => check_chars_stripped(&f, s, &expect),
        _ => check(&f, Pipe::Enum, s, &expect),
    }
}

/// literal macro invocations: tie the macro text to the parse_chars(strip) path
fn macro_cases() -> Vec<(&'static str, Box<dyn Fn() -> Narsese>, Narsese)> {
    use narsese::enum_nse as nse;
    let f = fmts::ascii();
    let p = |s: &str| f.e.parse::<Narsese>(s).expect("macro reference string must parse");
    vec![
        ("<A --> B>.", Box::new(|| nse!(<A --> B>.)), p("<A --> B>.")),
        ("spaced statement", Box::new(|| nse!("<  A   -->B >  .   %1.0 ; 0.9%")), p("<A --> B>. %1.0;0.9%")),
        ("task", Box::new(|| nse!("$0.5; 0.75;0.4$ <(&/, <{ball} --> [left]>, +3) ==> <{SELF} --> [good]>>. :!-1: %1.0;0.9%")), p("$0.5;0.75;0.4$ <(&/,<{ball}-->[left]>,+3)==><{SELF}-->[good]>>. :!-1: %1.0;0.9%")),
        ("fixed stamp spaced", Box::new(|| nse!("A. :! 5 :")), p("A. :!5:")),
        ("image", Box::new(|| nse!("( / , R , _ , B )")), p("(/,R,_,B)")),
        // string literals holding whitespace other than the ASCII space: tab, line break (a literal
        // written over several lines), carriage return, ideographic space, no-break space
        ("tab literal", Box::new(|| nse!("<A\t-->\tB>.\t%1.0;\t0.9%")), p("<A --> B>. %1.0;0.9%")),
        ("multi-line literal", Box::new(|| nse!("$0.5;0.75;0.4$
            <(&/, <{ball} --> [left]>, +3)
                ==> <{SELF} --> [good]>>.
            :!-1: %1.0;0.9%")), p("$0.5;0.75;0.4$ <(&/,<{ball}-->[left]>,+3)==><{SELF}-->[good]>>. :!-1: %1.0;0.9%")),
        ("crlf literal", Box::new(|| nse!("(&&,\r\nA,\r\nB)")), p("(&&,A,B)")),
        ("ideographic space literal", Box::new(|| nse!("{A,\u{3000}B}")), p("{A,B}")),
        ("no-break space literal", Box::new(|| nse!("<A\u{a0}<->\u{a0}B>?")), p("<A<->B>?")),
        ("term macro, tab", Box::new(|| Narsese::Term(narsese::enum_nse_term!("(*,\tA,\tB)"))), p("(*,A,B)")),
        ("sentence macro, newline", Box::new(|| Narsese::Sentence(narsese::enum_nse_sentence!("<A --> B>!\n:|:\n%0.5%"))), p("<A --> B>! :|: %0.5%")),
        ("task macro, tab", Box::new(|| Narsese::Task(narsese::enum_nse_task!("$0.5$\t<A --> B>.\t:/:"))), p("$0.5$ <A --> B>. :/:")),
        ("token form", Box::new(|| nse!(<(&&, A, B) ==> C>. %1.0;0.9%)), p("<(&&,A,B)==>C>. %1.0;0.9%")),
    ]
}

pub fn run(run: &Run) {
    run.rule(
        "for every value of U_term and a cover of U_sent, its reference token list t1..tn, and the \
         spacings: none, two spaces everywhere incl. both ends, one space everywhere, and for every \
         boundary i 'one space at i only' and 'a space everywhere except i' (thorough: every spacing \
         with <= 2 spaces); enum parser and lexical parse + fold, x 3 formats; lexical pipeline also \
         with tab, newline, U+3000, U+00A0 as the space; parse_chars(strip_whitespace(s)) for the \
         fully spaced form; literal enum_nse!/lexical_nse! invocations; distinct = distinct spaced \
         strings (hashed)",
    );
    run.assume("token boundaries are those of the reference formatter (an atom with its prefix is one token; numbers are single tokens)");
    let tier = run.tier;
    let distinct = crate::distinct::Distinct::new();
    for f in fmts::all() {
        let mut vals: Vec<V> = match tier {
            Tier::Quick => {
                let mut t = u::all_atoms(&f);
                u::apply_all(&u::pool(&f), 2, &mut t);
                let mut items = u::reps(&f);
                items.truncate(30);
                let mut t2 = vec![];
                u::apply_all(&items, 1, &mut t2);
                t.extend(t2);
                t.extend(u::reps(&f));
                t.extend(u::towers(4));
                t.into_iter().map(V::term).collect()
            }
            Tier::Thorough => u::u_term(&f, Tier::Quick).into_iter().map(V::term).collect(),
        };
        vals.extend(u::u_sent_cover(&f));
        if tier == Tier::Thorough {
            vals.extend(u::u_sent(&f).into_iter().step_by(7));
        }
        run.count(&format!("values_{}", f.name), vals.len() as u64);
        run.sample(json!({"format": f.name, "tokens": emit::value(&f, &vals[vals.len() - 5])}));
        vals.par_iter().for_each(|v| {
            let toks = emit::value(&f, v);
            // one watchdog case per value - except for very wide values, where every single parse is its own case
            let wide = toks.len() > 120;
            let _w = if wide { None } else { Some(crate::watch::enter(&v.show())) };
            let expect = v.canon();
            let feats = c01::features(&f, v);
            let reference = emit::join(&toks, "");
            let mut ss = vec![];
            if !wide {
                spacings(&toks, " ", &mut ss);
            } else {
                // very wide values (hundreds of tokens; the lexical parser's cost grows with components x remaining
                // text): the three uniform spacings only - none, one blank everywhere inside, two blanks everywhere
                let n = toks.len();
                let none: Vec<&str> = vec![""; n + 1];
                ss.push(emit::join_with(&toks, &none));
                let mut all1: Vec<&str> = vec![" "; n + 1];
                all1[0] = "";
                all1[n] = "";
                ss.push(emit::join_with(&toks, &all1));
                let all2: Vec<&str> = vec!["  "; n + 1];
                ss.push(emit::join_with(&toks, &all2));
            }
            if tier == Tier::Thorough && toks.len() <= 14 {
                spacings2(&toks, " ", &mut ss);
            }
            for s in &ss {
                distinct.add(s);
                for p in [Pipe::Enum, Pipe::LexFold] {
                    run.eval(1);
                    match check(&f, p, s, &expect) {
                        Err(msg) => run.violation(&format!("[{}] {}", f.name, msg), json!({"op": "spacing", "format": f.name, "pipeline": format!("{p:?}"), "input": s, "value": v.to_json()}), &feats),
                        Ok(()) if p == Pipe::LexFold && !wide => {
                            // the other public routes into the lexical parser (free functions, the
                            // term-only entry) must treat the same spacing the same way
                            run.eval(1);
                            if let Err(msg) = ops::lexical_routes_agree(&f, s, &reference) {
                                run.violation(&format!("[{}] {}", f.name, msg), json!({"op": "spacing", "format": f.name, "pipeline": "LexRoutes", "input": s, "reference": reference, "value": v.to_json()}), &feats);
                            }
                        }
                        Ok(()) => {}
                    }
                }
            }
            // all spacings of this value as ONE batch through the reused parser of parse_multi (many of them
            // have the same length and differ only in where the blank is): every position must be the value
            if toks.len() <= 40 {
                run.eval(ss.len() as u64);
                let batch: Vec<&str> = ss.iter().map(|x| x.as_str()).collect();
                match quiet_catch(AssertUnwindSafe(|| f.e.parse_multi(batch.clone()).into_iter().map(|r| r.map(|n| cv_of(&n)).map_err(|e| e.to_string())).collect::<Vec<_>>())) {
                    Ok(rs) => {
                        for (i, r) in rs.iter().enumerate() {
                            let bad = match r {
                                Ok(cv) if *cv == expect => None,
                                Ok(cv) => Some(format!("position {i} of parse_multi over all spacings of one value: {:?} parses to {} instead of {}", ss[i], show_cv(cv), show_cv(&expect))),
                                Err(e) => Some(format!("position {i} of parse_multi over all spacings of one value: {:?} is rejected ({e}); it means {}", ss[i], show_cv(&expect))),
                            };
                            if let Some(msg) = bad {
                                // the same spacing parsed alone decides whether this is the batch's doing
                                if check(&f, Pipe::Enum, &ss[i], &expect).is_ok() {
                                    run.violation(&format!("[{}] {}", f.name, msg), json!({"op": "spacing_batch", "format": f.name, "inputs": ss[..=i].to_vec(), "value": v.to_json()}), &feats);
                                }
                                break;
                            }
                        }
                        if rs.len() != ss.len() {
                            run.violation(&format!("[{}] parse_multi returns {} results for {} inputs", f.name, rs.len(), ss.len()), json!({"op": "spacing_batch", "format": f.name, "inputs": ss, "value": v.to_json()}), &feats);
                        }
                    }
                    Err(p) => run.violation(&format!("[{}] parse_multi over all spacings of {} panics: {p}", f.name, v.show()), json!({"op": "spacing_batch", "format": f.name, "inputs": ss, "value": v.to_json()}), &feats),
                }
            }
            // other whitespace characters: lexical pipeline only, and the macro path
            // quick: tab, newline, ideographic space, no-break space; thorough: every Unicode White_Space
            let quick_ws = ["\t", "\n", "\u{3000}", "\u{a0}"];
            let all_ws = ["\t", "\n", "\u{b}", "\u{c}", "\r", " ", "\u{85}", "\u{a0}", "\u{1680}", "\u{2000}", "\u{2001}", "\u{2002}", "\u{2003}", "\u{2004}", "\u{2005}", "\u{2006}", "\u{2007}", "\u{2008}", "\u{2009}", "\u{200a}", "\u{2028}", "\u{2029}", "\u{202f}", "\u{205f}", "\u{3000}"];
            let ws_list: &[&str] = if wide { &[] } else if tier == Tier::Thorough || toks.len() <= 3 { &all_ws } else { &quick_ws };
            for ws in ws_list.iter().copied() {
                let all: Vec<&str> = vec![ws; toks.len() + 1];
                let s = emit::join_with(&toks, &all);
                distinct.add(&s);
                run.eval(2);
                match check(&f, Pipe::LexFold, &s, &expect) {
                    Err(msg) => run.violation(&format!("[{}] {}", f.name, msg), json!({"op": "spacing", "format": f.name, "pipeline": "LexFold", "input": s, "value": v.to_json()}), &feats),
                    Ok(()) => {
                        if let Err(msg) = ops::lexical_routes_agree(&f, &s, &reference) {
                            run.violation(&format!("[{}] {}", f.name, msg), json!({"op": "spacing", "format": f.name, "pipeline": "LexRoutes", "input": s, "reference": reference, "value": v.to_json()}), &feats);
                        }
                    }
                }
                if let Err(msg) = check_chars_stripped(&f, &s, &expect) {
                    run.violation(&format!("[{}] {}", f.name, msg), json!({"op": "spacing", "format": f.name, "pipeline": "CharsStripped", "input": s, "value": v.to_json()}), &feats);
                }
            }
        });
    }
    // ONE long run of blanks (257, 300, 400 - the whole string stays under 512 characters) at each token boundary in turn,
    // and statements whose atom subject / predicate has a name of 63..300 characters written without any blank
    for f in fmts::all() {
        let mut vals: Vec<V> = vec![
            V::term(R::pair(Tag::Inh, R::word("a"), R::atom(Tag::IVar, "b1"))),
            V::term(R::node(Tag::Product, vec![R::word("a"), R::node(Tag::SetExt, vec![R::word("b1")])])),
            V { term: R::pair(Tag::Sim, R::word("a"), R::word("b1")), punct: Some(P::Judgement), stamp: St::Fixed(-1), truth: vec![1.0, 0.9], budget: Some(vec![0.5, 0.75, 0.4]) },
            V { term: R::image(Tag::ImageExt, 1, vec![R::word("r"), R::word("x")]), punct: Some(P::Goal), stamp: St::Present, truth: vec![0.5], budget: None },
        ];
        for n in u::class_names().into_iter().filter(|n| n.chars().count() >= 60) {
            vals.push(V::term(R::pair(Tag::Inh, R::word(&n), R::word("b"))));
            vals.push(V::term(R::pair(Tag::Impl, R::word("b"), R::atom(Tag::Operator, &n))));
            vals.push(V::term(R::node(Tag::Product, vec![R::word(&n), R::word(&n)])));
        }
        vals.par_iter().for_each(|v| {
            let toks = emit::value(&f, v);
            let expect = v.canon();
            let feats = c01::features(&f, v);
            let base_len: usize = toks.iter().map(|t| t.chars().count()).sum();
            let mut ss = vec![emit::join(&toks, "")];
            for run_len in [257usize, 300, 400] {
                if base_len + run_len > 512 {
                    continue;
                }
                let blanks = " ".repeat(run_len);
                for i in 0..=toks.len() {
                    let mut seps: Vec<&str> = vec![""; toks.len() + 1];
                    seps[i] = &blanks;
                    ss.push(emit::join_with(&toks, &seps));
                }
            }
            for s in &ss {
                for p in [Pipe::Enum, Pipe::LexFold] {
                    run.eval(1);
                    if let Err(msg) = check(&f, p, s, &expect) {
                        run.violation(&format!("[{}] {}", f.name, msg), json!({"op": "spacing", "format": f.name, "pipeline": format!("{p:?}"), "input": s, "value": v.to_json()}), &feats);
                    }
                }
            }
        });
    }
    // statements written with the four DERIVED copulas (instance, property, instance-property, retrospective
    // equivalence) - well-formed surface strings no formatter prints: every spacing, both pipelines, against the
    // documented desugaring
    for f in fmts::all() {
        let st = &f.e.statement;
        let operands = [R::word("a"), R::word("x-y"), R::atom(Tag::IVar, "b1"), R::atom(Tag::Operator, "go"), R::interval(7), R::node(Tag::SetExt, vec![R::word("a")]), R::node(Tag::Product, vec![R::word("a"), R::word("b1")]), R::pair(Tag::Inh, R::word("a"), R::word("b1"))];
        let se = |x: &R| R::node(Tag::SetExt, vec![x.clone()]);
        let si = |x: &R| R::node(Tag::SetInt, vec![x.clone()]);
        let mut cases: Vec<(Vec<String>, R)> = vec![];
        for s_ in &operands {
            for p_ in &operands {
                for (cop, expect) in [
                    (st.copula_instance, R::pair(Tag::Inh, se(s_), p_.clone())),
                    (st.copula_property, R::pair(Tag::Inh, s_.clone(), si(p_))),
                    (st.copula_instance_property, R::pair(Tag::Inh, se(s_), si(p_))),
                    (st.copula_equivalence_retrospective, R::pair(Tag::EquivPred, p_.clone(), s_.clone())),
                ] {
                    let mut toks = vec![st.brackets.0.to_string()];
                    toks.extend(emit::term_toks(&f, s_));
                    toks.push(cop.to_string());
                    toks.extend(emit::term_toks(&f, p_));
                    toks.push(st.brackets.1.to_string());
                    cases.push((toks, expect));
                }
            }
        }
        run.count(&format!("derived_copula_statements_{}", f.name), cases.len() as u64);
        cases.par_iter().for_each(|(toks, r)| {
            let v = V::term(r.clone());
            let expect = v.canon();
            let mut feats = c01::features(&f, &v);
            if f.name == "han" && c01::han_name_ends_with_copula_head(r) {
                feats.push("han-name-ending-in-first-character-of-a-two-character-copula".into());
            }
            let mut ss = vec![];
            spacings(toks, " ", &mut ss);
            for s in &ss {
                distinct.add(s);
                for p in [Pipe::Enum, Pipe::LexFold] {
                    run.eval(1);
                    if let Err(msg) = check(&f, p, s, &expect) {
                        run.violation(&format!("[{}] {}", f.name, msg), json!({"op": "spacing", "format": f.name, "pipeline": format!("{p:?}"), "input": s, "value": v.to_json()}), &feats);
                    }
                }
            }
        });
    }
    // medium-size mixed terms (every constructor triple on one path; 4-6 components of different
    // constructors): the two extreme spacings only - no space anywhere, two spaces everywhere
    for f in fmts::all() {
        let mut vals: Vec<V> = u::chains(3).into_iter().map(V::term).collect();
        vals.extend(u::mixed_wide(&f).into_iter().map(V::term));
        run.count(&format!("medium_values_{}", f.name), vals.len() as u64);
        vals.par_iter().for_each(|v| {
            let _w = crate::watch::enter(&v.show());
            let toks = emit::value(&f, v);
            let expect = v.canon();
            let feats = c01::features(&f, v);
            let none: Vec<&str> = vec![""; toks.len() + 1];
            let two: Vec<&str> = vec!["  "; toks.len() + 1];
            for s in [emit::join_with(&toks, &none), emit::join_with(&toks, &two)] {
                distinct.add(&s);
                for p in [Pipe::Enum, Pipe::LexFold] {
                    run.eval(1);
                    if let Err(msg) = check(&f, p, &s, &expect) {
                        run.violation(&format!("[{}] {}", f.name, msg), json!({"op": "spacing", "format": f.name, "pipeline": format!("{p:?}"), "input": s, "value": v.to_json()}), &feats);
                    }
                }
            }
        });
    }
    for (what, make, want) in macro_cases() {
        run.eval(1);
        let got = match quiet_catch(AssertUnwindSafe(|| make())) {
            Ok(g) => g,
            Err(p) => {
                run.violation(&format!("enum macro invocation {what:?} panics: {p}"), json!({"op": "macro", "what": what}), &[]);
                continue;
            }
        };
        if cv_of(&got) != cv_of(&want) {
            run.violation(&format!("enum_nse! invocation {what:?} gives {} instead of {}", show_cv(&cv_of(&got)), show_cv(&cv_of(&want))), json!({"op": "macro", "what": what}), &[]);
        }
    }
    {
        use narsese::lexical_nse as lnse;
        let f = fmts::ascii();
        let a = lnse!("<  A   -->B >  .   %1.0 ; 0.9%");
        let b = f.l.parse("<A-->B>.%1.0;0.9%").unwrap();
        run.eval(1);
        if a != b {
            run.violation("lexical_nse! with spaces differs from the unspaced parse", json!({"op": "macro", "what": "lexical"}), &[]);
        }
        let cases: Vec<(&str, Box<dyn Fn() -> narsese::lexical::Narsese>, &str)> = vec![
            ("tab", Box::new(|| lnse!("<A\t-->\tB>.\t%1.0;\t0.9%")), "<A-->B>.%1.0;0.9%"),
            ("multi-line", Box::new(|| lnse!("$0.5;0.75;0.4$
                <(&/, <{ball} --> [left]>, +3) ==> <{SELF} --> [good]>>.
                :!-1: %1.0;0.9%")), "$0.5;0.75;0.4$<(&/,<{ball}-->[left]>,+3)==><{SELF}-->[good]>>.:!-1:%1.0;0.9%"),
            ("ideographic space", Box::new(|| lnse!("{A,\u{3000}B}")), "{A,B}"),
            ("term macro", Box::new(|| narsese::lexical::Narsese::Term(narsese::lexical_nse_term!("(*,\tA,\nB)"))), "(*,A,B)"),
            ("sentence macro", Box::new(|| narsese::lexical::Narsese::Sentence(narsese::lexical_nse_sentence!("<A --> B>!\n:|:\n%0.5%"))), "<A-->B>!:|:%0.5%"),
            ("task macro", Box::new(|| narsese::lexical::Narsese::Task(narsese::lexical_nse_task!("$0.5$\t<A --> B>.\t:/:"))), "$0.5$<A-->B>.:/:"),
            ("token form", Box::new(|| lnse!(<(&&, A, B) ==> C>. %1.0;0.9%)), "<(&&,A,B)==>C>.%1.0;0.9%"),
        ];
        for (what, make, text) in cases {
            run.eval(1);
            let want = f.l.parse(text).unwrap();
            let got = match quiet_catch(AssertUnwindSafe(|| make())) {
                Ok(g) => g,
                Err(p) => {
                    run.violation(&format!("lexical macro invocation {what:?} panics: {p}"), json!({"op": "macro", "what": format!("lexical {what}")}), &[]);
                    continue;
                }
            };
            if got != want {
                run.violation(&format!("lexical macro invocation {what:?} gives {got:?} instead of {want:?}"), json!({"op": "macro", "what": format!("lexical {what}")}), &[]);
            }
        }
    }
    run.add_distinct(distinct.len());
    let _ = ops::is_panic;
}
