//! C10 - derived copulas and surface sugar mean what the documentation says, in both pipelines.

use crate::emit;
use crate::fmts::{self, F};
use crate::model::*;
use crate::ops;
use crate::report::Run;
use crate::universe as u;
use rayon::prelude::*;
use serde_json::{json, Value as J};

#[derive(Clone, Copy, Debug, PartialEq)]
pub enum Pipe {
    Enum,
    LexFold,
}

pub fn run_pipe(f: &F, p: Pipe, s: &str) -> Result<narsese::enum_narsese::Narsese, String> {
    match p {
        Pipe::Enum => ops::parse_enum(f, s),
        Pipe::LexFold => ops::lex_then_fold(f, s),
    }
}

/// oracle: `s` parses (through `p`) to a bare term whose canonical form is `expect`;
/// `expect == None` means the input must be rejected.
pub fn case(f: &F, p: Pipe, s: &str, expect: Option<&R>) -> Result<(), String> {
    match (run_pipe(f, p, s), expect) {
        (Ok(n), Some(x)) => {
            let got = cv_of(&n);
            if got.kind != Kind::Term {
                return Err(format!("{p:?} {s:?}: parsed as {:?}, expected a term", got.kind));
            }
            if got.term != x.canon() {
                return Err(format!("{p:?} {s:?}: means {} but parses to {}", x.canon().show(), got.term.show()));
            }
            Ok(())
        }
        (Err(e), Some(x)) => Err(format!("{p:?} {s:?}: rejected ({e}), should mean {}", x.show())),
        (Ok(n), None) => Err(format!("{p:?} {s:?}: accepted as {}, should be rejected", show_cv(&cv_of(&n)))),
        (Err(e), None) => {
            if ops::is_panic(&e) { Err(format!("{p:?} {s:?}: {e}")) } else { Ok(()) }
        }
    }
}

fn case_json(f: &F, p: Pipe, s: &str, expect: Option<&R>) -> J {
    json!({"op": "meaning", "format": f.name, "pipeline": format!("{p:?}"), "input": s,
           "expect": expect.map(|r| r.to_json())})
}

pub fn replay_case(c: &J) -> Result<(), String> {
    if c["op"].as_str() == Some("derived_constructor") {
        use narsese::enum_narsese::Term;
        let (s, p) = (R::from_json(&c["s"]), R::from_json(&c["p"]));
        let se = |x: &R| R::node(Tag::SetExt, vec![x.clone()]);
        let si = |x: &R| R::node(Tag::SetInt, vec![x.clone()]);
        let (got, expect) = match c["name"].as_str().unwrap_or("") {
            "new_instance" => (Term::new_instance(s.build(), p.build()), R::pair(Tag::Inh, se(&s), p.clone())),
            "new_property" => (Term::new_property(s.build(), p.build()), R::pair(Tag::Inh, s.clone(), si(&p))),
            "new_instance_property" => (Term::new_instance_property(s.build(), p.build()), R::pair(Tag::Inh, se(&s), si(&p))),
            _ => (Term::new_equivalence_retrospective(s.build(), p.build()), R::pair(Tag::EquivPred, p.clone(), s.clone())),
        };
        return if R::canon_of_term(&got) == expect.canon() { Ok(()) } else { Err(format!("derived constructor gives {}", R::canon_of_term(&got).show())) };
    }
    let f = fmts::by_name(c["format"].as_str().unwrap_or("ascii"));
    let p = if c["pipeline"].as_str() == Some("LexFold") { Pipe::LexFold } else { Pipe::Enum };
    let expect = if c["expect"].is_null() { None } else { Some(R::from_json(&c["expect"])) };
    case(&f, p, c["input"].as_str().unwrap_or(""), expect.as_ref())
}

fn stmt(f: &F, s: &R, cop: &str, p: &R, sep: &str) -> String {
    let mut t = vec![f.e.statement.brackets.0.to_string()];
    emit::term(f, s, &mut t);
    t.push(cop.to_string());
    emit::term(f, p, &mut t);
    t.push(f.e.statement.brackets.1.to_string());
    emit::join(&t, sep)
}

pub fn run(run: &Run) {
    run.rule(
        "S,P over all atoms u one representative per compound/statement constructor; all 13 copulas \
         (4 derived + 9 primary controls) written infix with and without spaces; image component \
         lists of length 1..4 over {atom, compound, placeholder} incl. two placeholders and \
         placeholder spellings; interval spellings incl. leading zeros, usize::MAX and overflow; \
         x 3 formats x 2 pipelines; expected values are recipes written in raw variants; distinct = \
         distinct (format, input string)",
    );
    run.assume("expected meaning taken from the property statement (first placeholder = image index; retrospective equivalence = swapped predictive)");
    let tier = run.tier;
    // the derived constructors themselves (the mechanism both pipelines rely on): built directly,
    // for every operand pair, they must be the desugared value
    {
        use narsese::enum_narsese::Term;
        let f = fmts::ascii();
        let mut ops_: Vec<R> = u::all_atoms(&f);
        ops_.extend(u::reps(&f).into_iter().filter(|r| !r.tag.is_atom()));
        let se = |x: &R| R::node(Tag::SetExt, vec![x.clone()]);
        let si = |x: &R| R::node(Tag::SetInt, vec![x.clone()]);
        for s in &ops_ {
            for p in &ops_ {
                let table: Vec<(&str, Term, R)> = vec![
                    ("new_instance", Term::new_instance(s.build(), p.build()), R::pair(Tag::Inh, se(s), p.clone())),
                    ("new_property", Term::new_property(s.build(), p.build()), R::pair(Tag::Inh, s.clone(), si(p))),
                    ("new_instance_property", Term::new_instance_property(s.build(), p.build()), R::pair(Tag::Inh, se(s), si(p))),
                    ("new_equivalence_retrospective", Term::new_equivalence_retrospective(s.build(), p.build()), R::pair(Tag::EquivPred, p.clone(), s.clone())),
                ];
                for (name, got, expect) in table {
                    run.eval(1);
                    let g = R::canon_of_term(&got);
                    if g != expect.canon() {
                        run.violation(&format!("Term::{name}({}, {}) = {} but the documented meaning is {}", s.show(), p.show(), g.show(), expect.canon().show()), json!({"op": "derived_constructor", "name": name, "s": s.to_json(), "p": p.to_json()}), &[]);
                    }
                }
            }
        }
    }
    for f in fmts::all() {
        let mut cases: Vec<(String, Option<R>)> = vec![];
        let mut ops_: Vec<R> = u::all_atoms(&f);
        ops_.extend(u::reps(&f).into_iter().filter(|r| !r.tag.is_atom()));
        if tier == crate::report::Tier::Quick {
            // quick: all atoms as S, all atoms+reps as P would be 50^2; keep every operand in both
            // positions but pair compounds only with a few partners
        }
        let st = &f.e.statement;
        let se = |x: &R| R::node(Tag::SetExt, vec![x.clone()]);
        let si = |x: &R| R::node(Tag::SetInt, vec![x.clone()]);
        for s in &ops_ {
            for p in &ops_ {
                let table: Vec<(&str, R)> = vec![
                    (st.copula_instance, R::pair(Tag::Inh, se(s), p.clone())),
                    (st.copula_property, R::pair(Tag::Inh, s.clone(), si(p))),
                    (st.copula_instance_property, R::pair(Tag::Inh, se(s), si(p))),
                    (st.copula_equivalence_retrospective, R::pair(Tag::EquivPred, p.clone(), s.clone())),
                    (st.copula_inheritance, R::pair(Tag::Inh, s.clone(), p.clone())),
                    (st.copula_similarity, R::pair(Tag::Sim, s.clone(), p.clone())),
                    (st.copula_implication, R::pair(Tag::Impl, s.clone(), p.clone())),
                    (st.copula_equivalence, R::pair(Tag::Equiv, s.clone(), p.clone())),
                    (st.copula_implication_predictive, R::pair(Tag::ImplPred, s.clone(), p.clone())),
                    (st.copula_implication_concurrent, R::pair(Tag::ImplConc, s.clone(), p.clone())),
                    (st.copula_implication_retrospective, R::pair(Tag::ImplRetro, s.clone(), p.clone())),
                    (st.copula_equivalence_predictive, R::pair(Tag::EquivPred, s.clone(), p.clone())),
                    (st.copula_equivalence_concurrent, R::pair(Tag::EquivConc, s.clone(), p.clone())),
                ];
                for (cop, expect) in table {
                    cases.push((stmt(&f, s, cop, p, " "), Some(expect.clone())));
                    if s.tag.is_atom() && p.tag.is_atom() {
                        cases.push((stmt(&f, s, cop, p, ""), Some(expect)));
                    }
                }
            }
        }
        // images: component lists of length 1..4 over {atom, compound, placeholder}
        let items = [R::word("a"), R::node(Tag::Product, vec![R::word("b1"), R::atom(Tag::DVar, "a")]), R::placeholder()];
        let c = &f.e.compound;
        for tag in [Tag::ImageExt, Tag::ImageInt] {
            for seq in u::sequences(&items, 1, 4) {
                let first = seq.iter().position(|r| r.tag == Tag::Placeholder);
                let expect = first.map(|i| {
                    let mut rest = seq.clone();
                    rest.remove(i);
                    R::image(tag, i, rest)
                });
                let mut t = vec![c.brackets.0.to_string(), emit::connecter(&f, tag).to_string()];
                for k in &seq {
                    t.push(c.separator.to_string());
                    emit::term(&f, k, &mut t);
                }
                t.push(c.brackets.1.to_string());
                cases.push((emit::join(&t, " "), expect.clone()));
                cases.push((emit::join(&t, ""), expect));
            }
            // very wide images (more than a thousand terms in one input), the placeholder first / in the middle / last
            for n in [300usize, 1100] {
                for at in [0usize, n / 2, n] {
                    let comps: Vec<R> = (0..n).map(|i| R::word(&format!("w{i}"))).collect();
                    let mut t = vec![c.brackets.0.to_string(), emit::connecter(&f, tag).to_string()];
                    for (i, k) in comps.iter().enumerate() {
                        if i == at {
                            t.push(c.separator.to_string());
                            t.push(f.e.atom.prefix_placeholder.to_string());
                        }
                        t.push(c.separator.to_string());
                        emit::term(&f, k, &mut t);
                    }
                    if at == n {
                        t.push(c.separator.to_string());
                        t.push(f.e.atom.prefix_placeholder.to_string());
                    }
                    t.push(c.brackets.1.to_string());
                    cases.push((emit::join(&t, ""), Some(R::image(tag, at, comps))));
                }
            }
            // placeholder spellings: the prefix followed by identifier characters
            let ph = f.e.atom.prefix_placeholder;
            // ... incl. tails that end in a proper prefix of a copula made of name characters
            // (ASCII/LaTeX '-' / '--', Han 具 将 现 曾): at the very end of the input the copula
            // look-ahead sees a slice shorter than the copula
            let mut tails: Vec<String> = ["", "a", "0", "_", "x-y", "甲"].iter().map(|s| s.to_string()).collect();
            for cop in f.copulas() {
                let chars: Vec<char> = cop.chars().collect();
                for k in 1..chars.len() {
                    let p: String = chars[..k].iter().collect();
                    if p.chars().all(|c| c.is_alphanumeric() || c == '-' || c == '_') {
                        for t in [p.clone(), format!("a{p}")] {
                            if !tails.contains(&t) {
                                tails.push(t);
                            }
                        }
                    }
                }
            }
            for tail in tails.iter().map(|s| s.as_str()) {
                let spelled = format!("{ph}{tail}");
                let s = format!("{}{}{} {}{} a{}", c.brackets.0, emit::connecter(&f, tag), c.separator, spelled, c.separator, c.brackets.1);
                cases.push((s, Some(R::image(tag, 0, vec![R::word("a")]))));
                let s = format!("{}{}{} a{} {}{}", c.brackets.0, emit::connecter(&f, tag), c.separator, c.separator, spelled, c.brackets.1);
                cases.push((s, Some(R::image(tag, 1, vec![R::word("a")]))));
                cases.push((spelled, Some(R::placeholder())));
            }
        }
        // intervals
        let ip = f.e.atom.prefix_interval;
        for (txt, val) in [
            ("0", Some(0usize)),
            ("7", Some(7)),
            ("0007", Some(7)),
            ("18446744073709551615", Some(usize::MAX)),
            ("018446744073709551615", Some(usize::MAX)),
            ("18446744073709551616", None),
            ("99999999999999999999999", None),
        ] {
            let s = format!("{ip}{txt}");
            cases.push((s.clone(), val.map(R::interval)));
            // inside a sequential conjunction
            let s2 = format!("{}{}{} a{} {}{}", c.brackets.0, c.connecter_conjunction_sequential, c.separator, c.separator, s, c.brackets.1);
            cases.push((s2, val.map(|v| R::node(Tag::SeqConj, vec![R::word("a"), R::interval(v)]))));
        }
        // every digit string of length 1..=5 over {0, 1, 9} as an interval spelling
        let mut digs: Vec<String> = vec![String::new()];
        for _ in 0..5 {
            let mut next = vec![];
            for d in &digs {
                for ch in ['0', '1', '9'] {
                    next.push(format!("{d}{ch}"));
                }
            }
            for d in &next {
                let v: usize = d.parse().unwrap();
                cases.push((format!("{ip}{d}"), Some(R::interval(v))));
            }
            digs = next;
        }
        cases.sort();
        cases.dedup();
        run.add_distinct(cases.len() as u64);
        run.count(&format!("inputs_{}", f.name), cases.len() as u64);
        run.sample(json!({"format": f.name, "input": cases[cases.len() / 2].0, "expect": cases[cases.len() / 2].1.as_ref().map(|r| r.show())}));
        cases.par_iter().for_each(|(s, expect)| {
            let _w = crate::watch::enter(s);
            for p in [Pipe::Enum, Pipe::LexFold] {
                run.eval(1);
                if let Err(msg) = crate::watch::case(s, || case(&f, p, s, expect.as_ref())) {
                    let mut fs = vec![];
                    if let Some(x) = expect {
                        if f.name == "han" && crate::props::c01::han_name_ends_with_copula_head(x) {
                            fs.push("han-name-ending-in-first-character-of-a-two-character-copula".to_string());
                        }
                    }
                    run.violation(&format!("[{}] {}", f.name, msg), case_json(&f, p, s, expect.as_ref()), &fs);
                }
            }
        });
    }
}
