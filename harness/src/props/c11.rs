//! C11 - ASCII output conforms to the published CommonNarsese grammar (README PEG) and the
//! OpenNARS-compatible lexicon.

use crate::fmts::{self, F};
use crate::lexu;
use crate::model::*;
use crate::peg::{self, Grammar, Interp, Node};
use crate::props::c02::{ln_from_json, ln_to_json};
use crate::report::{Run, Tier};
use crate::universe as u;
use narsese::lexical::{Narsese as LN, Sentence as LS, Task as LT, Term as LTerm};
use narsese::enum_narsese::Narsese;
use rayon::prelude::*;
use serde_json::{json, Value as J};
use std::sync::OnceLock;

/// the grammar as published at the time the harness was written (diffed against the README at run
/// time; the README's text is what is interpreted)
pub const EMBEDDED_GRAMMAR_SHA_NOTE: &str = "grammar is read from /repo/README.md at run time";

pub fn grammar() -> &'static Grammar {
    static G: OnceLock<Grammar> = OnceLock::new();
    G.get_or_init(|| {
        let readme = std::fs::read_to_string(format!("{}/README.md", crate::report::repo_dir())).expect("/repo/README.md must be readable");
        let text = peg::extract_grammar(&readme).expect("README.md must contain a ```pest block");
        Grammar::parse(&text).expect("the README grammar must be parseable")
    })
}

fn strip_ws(s: &str) -> String {
    s.chars().filter(|c| !c.is_whitespace()).collect()
}

/// PEG tree -> lexical value, following the rule names of the published grammar
fn term_of(ip: &Interp, n: &Node) -> Result<LTerm, String> {
    // n.rule == "term"
    let c = n.children.first().ok_or("term node without child")?;
    match c.rule.as_str() {
        "atom" => {
            let mut prefix = String::new();
            let mut name = String::new();
            for k in &c.children {
                match k.rule.as_str() {
                    "atom_prefix" => prefix = ip.text(k),
                    "atom_content" => name = ip.text(k),
                    _ => {}
                }
            }
            if c.children.is_empty() {
                // "_"+ alternative: the placeholder
                prefix = strip_ws(&ip.text(c));
            }
            Ok(LTerm::Atom { prefix, name })
        }
        "compound" => {
            let text = ip.text(c);
            let first = text.chars().next().unwrap_or(' ');
            let mut connecter = None;
            let mut terms = vec![];
            for k in &c.children {
                match k.rule.as_str() {
                    "connecter" => connecter = Some(ip.text(k)),
                    "term" => terms.push(term_of(ip, k)?),
                    _ => {}
                }
            }
            match (first, connecter) {
                ('(', Some(connecter)) => Ok(LTerm::Compound { connecter, terms }),
                ('{', None) => Ok(LTerm::Set { left_bracket: "{".into(), terms, right_bracket: "}".into() }),
                ('[', None) => Ok(LTerm::Set { left_bracket: "[".into(), terms, right_bracket: "]".into() }),
                other => Err(format!("unexpected compound shape {other:?}")),
            }
        }
        "statement" => {
            let mut ts = vec![];
            let mut copula = String::new();
            for k in &c.children {
                match k.rule.as_str() {
                    "term" => ts.push(term_of(ip, k)?),
                    "copula" => copula = ip.text(k),
                    _ => {}
                }
            }
            if ts.len() != 2 {
                return Err("statement without two terms".into());
            }
            let p = ts.pop().unwrap();
            let s = ts.pop().unwrap();
            Ok(LTerm::Statement { copula, subject: Box::new(s), predicate: Box::new(p) })
        }
        other => Err(format!("unexpected child of term: {other}")),
    }
}

fn numbers(ip: &Interp, n: &Node) -> Vec<String> {
    let mut v = vec![];
    fn walk(ip: &Interp, n: &Node, v: &mut Vec<String>) {
        if n.rule == "truth_budget_term" {
            v.push(ip.text(n));
        }
        for k in &n.children {
            walk(ip, k, v);
        }
    }
    walk(ip, n, &mut v);
    v
}

fn sentence_of(ip: &Interp, n: &Node) -> Result<LS, String> {
    let mut term = None;
    let mut punctuation = String::new();
    let mut stamp = String::new();
    let mut truth = vec![];
    for k in &n.children {
        match k.rule.as_str() {
            "term" => term = Some(term_of(ip, k)?),
            "punctuation" => punctuation = ip.text(k),
            "stamp" => stamp = strip_ws(&ip.text(k)),
            "truth" => truth = numbers(ip, k),
            _ => {}
        }
    }
    Ok(LS { term: term.ok_or("sentence without term")?, punctuation, stamp, truth })
}

/// Parse with the published grammar: "the whole input is a task, else a sentence, else a term".
pub fn reference_parse(s: &str) -> Result<LN, String> {
    let g = grammar();
    let mut ip = Interp::new(g, s);
    if let Some(n) = ip.parse_whole("task") {
        let mut budget = vec![];
        let mut sentence = None;
        for k in &n.children {
            match k.rule.as_str() {
                "budget" => budget = numbers(&ip, k),
                "sentence" => sentence = Some(sentence_of(&ip, k)?),
                _ => {}
            }
        }
        return Ok(LN::Task(LT { budget, sentence: sentence.ok_or("task without sentence")? }));
    }
    let mut ip = Interp::new(g, s);
    if let Some(n) = ip.parse_whole("sentence") {
        return Ok(LN::Sentence(sentence_of(&ip, &n)?));
    }
    let mut ip = Interp::new(g, s);
    if let Some(n) = ip.parse_whole("term") {
        return Ok(LN::Term(term_of(&ip, &n)?));
    }
    Err("the published grammar does not derive this string as a task, a sentence or a term".into())
}

fn kind_name(n: &LN) -> &'static str {
    match n {
        LN::Term(_) => "term",
        LN::Sentence(_) => "sentence",
        LN::Task(_) => "task",
    }
}

/// oracle for one ASCII string produced by a formatter for a value of kind `kind`
pub fn case(s: &str, kind: &str) -> Result<(), String> {
    let f = fmts::ascii();
    let r = reference_parse(s).map_err(|e| format!("{s:?}: {e}"))?;
    if kind_name(&r) != kind {
        return Err(format!("{s:?} was printed for a {kind} but the published grammar classifies it as a {}", kind_name(&r)));
    }
    match f.l.parse(s) {
        Ok(l) => {
            if l != r {
                Err(format!("{s:?}: the published grammar derives {r:?} but the ASCII lexical parser returns {l:?}"))
            } else {
                Ok(())
            }
        }
        Err(e) => Err(format!("{s:?}: accepted by the published grammar, rejected by the ASCII lexical parser: {e}")),
    }
}

/// The OpenNARS ASCII lexicon the README refers to, as a literal table.
pub fn lexicon_mismatches() -> Vec<String> {
    let f = fmts::ascii();
    let e = f.e;
    let mut bad = vec![];
    let mut eq = |what: &str, got: &str, want: &str| {
        if got != want {
            bad.push(format!("{what}: FORMAT_ASCII has {got:?}, the OpenNARS lexicon has {want:?}"));
        }
    };
    eq("word prefix", e.atom.prefix_word, "");
    eq("placeholder", e.atom.prefix_placeholder, "_");
    eq("independent variable prefix", e.atom.prefix_variable_independent, "$");
    eq("dependent variable prefix", e.atom.prefix_variable_dependent, "#");
    eq("query variable prefix", e.atom.prefix_variable_query, "?");
    eq("interval prefix", e.atom.prefix_interval, "+");
    eq("operator prefix", e.atom.prefix_operator, "^");
    eq("compound left bracket", e.compound.brackets.0, "(");
    eq("compound right bracket", e.compound.brackets.1, ")");
    eq("separator", e.compound.separator, ",");
    eq("extensional set left", e.compound.brackets_set_extension.0, "{");
    eq("extensional set right", e.compound.brackets_set_extension.1, "}");
    eq("intensional set left", e.compound.brackets_set_intension.0, "[");
    eq("intensional set right", e.compound.brackets_set_intension.1, "]");
    eq("extensional intersection", e.compound.connecter_intersection_extension, "&");
    eq("intensional intersection", e.compound.connecter_intersection_intension, "|");
    eq("extensional difference", e.compound.connecter_difference_extension, "-");
    eq("intensional difference", e.compound.connecter_difference_intension, "~");
    eq("product", e.compound.connecter_product, "*");
    eq("extensional image", e.compound.connecter_image_extension, "/");
    eq("intensional image", e.compound.connecter_image_intension, "\\");
    eq("conjunction", e.compound.connecter_conjunction, "&&");
    eq("disjunction", e.compound.connecter_disjunction, "||");
    eq("negation", e.compound.connecter_negation, "--");
    eq("sequential conjunction", e.compound.connecter_conjunction_sequential, "&/");
    eq("parallel conjunction", e.compound.connecter_conjunction_parallel, "&|");
    eq("statement left bracket", e.statement.brackets.0, "<");
    eq("statement right bracket", e.statement.brackets.1, ">");
    eq("inheritance", e.statement.copula_inheritance, "-->");
    eq("similarity", e.statement.copula_similarity, "<->");
    eq("implication", e.statement.copula_implication, "==>");
    eq("equivalence", e.statement.copula_equivalence, "<=>");
    eq("instance", e.statement.copula_instance, "{--");
    eq("property", e.statement.copula_property, "--]");
    eq("instance-property", e.statement.copula_instance_property, "{-]");
    eq("predictive implication", e.statement.copula_implication_predictive, "=/>");
    eq("concurrent implication", e.statement.copula_implication_concurrent, "=|>");
    eq("retrospective implication", e.statement.copula_implication_retrospective, "=\\>");
    eq("predictive equivalence", e.statement.copula_equivalence_predictive, "</>");
    eq("concurrent equivalence", e.statement.copula_equivalence_concurrent, "<|>");
    eq("retrospective equivalence (documented extension)", e.statement.copula_equivalence_retrospective, "<\\>");
    eq("judgement", e.sentence.punctuation_judgement, ".");
    eq("goal", e.sentence.punctuation_goal, "!");
    eq("question", e.sentence.punctuation_question, "?");
    eq("quest", e.sentence.punctuation_quest, "@");
    eq("stamp left bracket", e.sentence.stamp_brackets.0, ":");
    eq("stamp right bracket", e.sentence.stamp_brackets.1, ":");
    eq("past", e.sentence.stamp_past, "\\");
    eq("present", e.sentence.stamp_present, "|");
    eq("future", e.sentence.stamp_future, "/");
    eq("fixed stamp marker", e.sentence.stamp_fixed, "!");
    eq("truth left bracket", e.sentence.truth_brackets.0, "%");
    eq("truth right bracket", e.sentence.truth_brackets.1, "%");
    eq("truth separator", e.sentence.truth_separator, ";");
    eq("budget left bracket", e.task.budget_brackets.0, "$");
    eq("budget right bracket", e.task.budget_brackets.1, "$");
    eq("budget separator", e.task.budget_separator, ";");
    // the lexical ASCII instance must list the same vocabulary
    bad.extend(crate::props::c03::vocab_mismatches(&f).into_iter().map(|m| format!("lexical FORMAT_ASCII vs enum FORMAT_ASCII: {m}")));
    bad
}

pub fn replay_case(c: &J) -> Result<(), String> {
    match c["op"].as_str() {
        Some("ascii_lexicon") => {
            let bad = lexicon_mismatches();
            if bad.is_empty() { Ok(()) } else { Err(bad.join("; ")) }
        }
        Some("grammar_conformance_lexical") => {
            let f = fmts::ascii();
            let x = ln_from_json(&c["value"]);
            for s in crate::props::c02::format_routes(&f, &x) {
                case(&s, kind_name(&x))?;
            }
            Ok(())
        }
        _ => {
            let f = fmts::ascii();
            let v = V::from_json(&c["value"]);
            let s = f.e.format_narsese(&v.build());
            let k = match v.kind() { Kind::Term => "term", Kind::Sentence => "sentence", Kind::Task => "task" };
            case(&s, k)
        }
    }
}

pub fn run(run: &Run) {
    run.rule(
        "every ASCII string the enum formatter prints for the C01 universe and the lexical formatter \
         prints for the C02 universe (>= 1 component): interpreted with the PEG published in \
         README.md (pest semantics), first matching alternative = kind of the value, PEG tree mapped \
         to a lexical value = result of the ASCII lexical parser; FORMAT_ASCII (enum and lexical) vs \
         the OpenNARS lexicon entry by entry; distinct = distinct strings",
    );
    run.assume("the grammar has no end-of-input marker; it is read as `task ~ EOI | sentence ~ EOI | term ~ EOI`");
    run.assume("Unicode general categories come from the regex crate's tables");
    let f = fmts::ascii();
    // grammar sanity
    let g = grammar();
    run.bound("grammar_rules", json!(g.rules.len()));
    run.eval(1);
    let bad = lexicon_mismatches();
    if !bad.is_empty() {
        run.violation(&format!("ASCII lexicon: {}", bad.join("; ")), json!({"op": "ascii_lexicon", "mismatches": bad}), &[]);
    }
    let tier = run.tier;
    // KF-6: the README grammar's copula class is a *pattern* (punct_sym "-" punct_sym, ...), wider
    // than the shipped copula table; '-' and '_' are both name characters and punct_sym, so a name
    // holding [-_] '-' [-_] (p---q, x_-_y) contains a grammar copula although it contains none of
    // the format's copulas. Feature computed from the name alone.
    fn name_holds_grammar_copula(name: &str) -> bool {
        let c: Vec<char> = name.chars().collect();
        c.windows(3).any(|w| (w[0] == '-' || w[0] == '_') && w[1] == '-' && (w[2] == '-' || w[2] == '_'))
    }
    const KF6: &str = "name-holding-the-grammar-copula-pattern-punct-dash-punct";
    let distinct = crate::distinct::Distinct::new();
    let mut vals: Vec<V> = u::u_term(&f, tier).into_iter().map(V::term).collect();
    vals.extend(u::u_sent(&f));
    // names holding the grammar's copula *pattern* (KF-6), both tiers
    for n in ["p---q", "x_-_y", "x--_y"] {
        vals.push(V::term(R::word(n)));
        vals.push(V::term(R::pair(Tag::Inh, R::atom(Tag::IVar, n), R::word("a"))));
    }
    // the property restricts names to letters, digits, '_' and inner '-' (the grammar's atom_char);
    // the thorough name alphabet also has an emoji name, which is outside C11's quantifier
    let before = vals.len();
    let name_class = regex::Regex::new(r"^[\p{L}\p{N}_-]*$").unwrap();
    vals.retain(|v| !v.term.any(&|n| !name_class.is_match(&n.name)));
    run.count("enum_values_outside_the_grammar_name_class_skipped", (before - vals.len()) as u64);
    run.count("enum_values", vals.len() as u64);
    vals.par_iter().for_each(|v| {
        run.eval(1);
        let v2 = v.clone();
        // every text a public formatting route prints for the value is "a string the ASCII formatter produces"
        let texts = match crate::report::quiet_catch(std::panic::AssertUnwindSafe(move || crate::props::c01::format_routes(&f, &v2.build()))) {
            Ok(t) => t,
            Err(_) => return,
        };
        for s in texts {
        distinct.add(&s);
        let k = match v.kind() { Kind::Term => "term", Kind::Sentence => "sentence", Kind::Task => "task" };
        if let Err(msg) = crate::watch::case(&s, || case(&s, k)) {
            let feats: Vec<String> = if v.term.any(&|n| name_holds_grammar_copula(&n.name)) { vec![KF6.to_string()] } else { vec![] };
            run.violation(&msg, json!({"op": "grammar_conformance_enum", "value": v.to_json(), "text": s}), &feats);
        }
        }
    });
    let mut lv: Vec<LN> = lexu::u_term(&f, 1, tier == Tier::Thorough).into_iter().map(LN::Term).collect();
    lv.extend(lexu::u_sent(&f));
    fn lex_names_ok(t: &LTerm) -> bool {
        match t {
            LTerm::Atom { name, .. } => {
                static RE: std::sync::OnceLock<regex::Regex> = std::sync::OnceLock::new();
                RE.get_or_init(|| regex::Regex::new(r"^[\p{L}\p{N}_-]*$").unwrap()).is_match(name)
            }
            LTerm::Compound { terms, .. } | LTerm::Set { terms, .. } => terms.iter().all(lex_names_ok),
            LTerm::Statement { subject, predicate, .. } => lex_names_ok(subject) && lex_names_ok(predicate),
        }
    }
    let before = lv.len();
    lv.retain(|x| lex_names_ok(crate::props::c02::term_of(x)));
    run.count("lexical_values_outside_the_grammar_name_class_skipped", (before - lv.len()) as u64);
    run.count("lexical_values", lv.len() as u64);
    lv.par_iter().for_each(|x| {
        run.eval(1);
        // every text a public route of the lexical formatter prints is "a string the ASCII formatter produces"
        let texts = match crate::report::quiet_catch(std::panic::AssertUnwindSafe(|| crate::props::c02::format_routes(&f, x))) {
            Ok(t) => t,
            Err(msg) => {
                run.violation(&format!("the lexical ASCII formatter panics on {x:?}: {msg}"), json!({"op": "grammar_conformance_lexical", "value": ln_to_json(x), "text": ""}), &[]);
                return;
            }
        };
        for s in texts {
        distinct.add(&s);
        if let Err(msg) = crate::watch::case(&s, || case(&s, kind_name(x))) {
            fn any_name(t: &LTerm, f: &dyn Fn(&str) -> bool) -> bool {
                match t {
                    LTerm::Atom { name, .. } => f(name),
                    LTerm::Compound { terms, .. } | LTerm::Set { terms, .. } => terms.iter().any(|k| any_name(k, f)),
                    LTerm::Statement { subject, predicate, .. } => any_name(subject, f) || any_name(predicate, f),
                }
            }
            let feats: Vec<String> = if any_name(crate::props::c02::term_of(x), &name_holds_grammar_copula) { vec![KF6.to_string()] } else { vec![] };
            run.violation(&msg, json!({"op": "grammar_conformance_lexical", "value": ln_to_json(x), "text": s}), &feats);
        }
        }
    });
    run.add_distinct(distinct.len());
    let sample = f.e.format_narsese(&vals[vals.len() - 11].build());
    run.sample(json!({"text": sample, "reference_tree": format!("{:?}", reference_parse(&sample))}));
}
