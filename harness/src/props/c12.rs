//! C12 - values produced by parsing or folding are always well-formed.

use crate::fmts::{self, F};
use crate::model::*;
use crate::ops;
use crate::props::c02::{ln_from_json, ln_to_json};
use crate::props::{c04, c05};
use crate::report::{quiet_catch, Run, Tier};
use narsese::enum_narsese::{Narsese, Task, Term};
use rayon::prelude::*;
use serde_json::{json, Value as J};
use std::panic::AssertUnwindSafe;

fn in01(x: f64) -> bool {
    (0.0..=1.0).contains(&x)
}

/// structural well-formedness read off the public variants
/// `from_parser`: additionally demand non-empty compounds/sets
pub fn wf_term(t: &Term, from_parser: bool) -> Result<(), String> {
    let r = R::of_term(t);
    let err: std::cell::RefCell<Option<String>> = std::cell::RefCell::new(None);
    r.any(&|n| {
        let bad = match n.tag.shape() {
            Shape::Atom => {
                if NAMED_ATOMS.contains(&n.tag) && n.name.is_empty() {
                    Some(format!("{} with an empty name", n.tag.name()))
                } else {
                    None
                }
            }
            Shape::Image => {
                if n.idx > n.kids.len() {
                    Some(format!("{} with placeholder index {} > {} components", n.tag.name(), n.idx, n.kids.len()))
                } else {
                    None
                }
            }
            Shape::Set | Shape::Seq => {
                if from_parser && n.kids.is_empty() {
                    Some(format!("empty {}", n.tag.name()))
                } else {
                    None
                }
            }
            _ => None,
        };
        if let Some(b) = bad {
            let mut e = err.borrow_mut();
            if e.is_none() {
                *e = Some(b);
            }
            true
        } else {
            false
        }
    });
    match err.into_inner() {
        Some(e) => Err(e),
        None => Ok(()),
    }
}

pub fn wf(n: &Narsese, from_parser: bool) -> Result<(), String> {
    let (term, truth, budget): (&Term, Vec<f64>, Vec<f64>) = match n {
        Narsese::Term(t) => (t, vec![], vec![]),
        Narsese::Sentence(s) => (sentence_term(s), sentence_truth(s), vec![]),
        Narsese::Task(Task(s, b)) => (sentence_term(s), sentence_truth(s), budget_floats(b)),
    };
    for x in truth.iter().chain(budget.iter()) {
        if !in01(*x) {
            return Err(format!("truth/budget component {x:?} outside [0,1]"));
        }
    }
    wf_term(term, from_parser)?;
    // must be formattable everywhere
    for g in fmts::all() {
        let n2 = n.clone();
        if let Err(p) = quiet_catch(AssertUnwindSafe(move || g.e.format_narsese(&n2))) {
            return Err(format!("formatting the value in {} panics: {p}", g.name));
        }
    }
    if let Err(e) = ops::typst(n) {
        return Err(format!("rendering the value to Typst: {e}"));
    }
    items_formattable(n)
}

/// the items of a sentence / task can also be formatted one by one (`format_truth`, `format_stamp`,
/// `format_punctuation`, `format_budget`, `format_term` and the `FormatTo` impls of the items) - all of
/// them public formatting routes of "such a value"; only "does not panic" is demanded
fn items_formattable(n: &Narsese) -> Result<(), String> {
    use narsese::api::{FormatTo, GetBudget, GetPunctuation, GetStamp, GetTerm, GetTruth};
    let n2 = n.clone();
    quiet_catch(AssertUnwindSafe(move || {
        for g in fmts::all() {
            match &n2 {
                Narsese::Term(t) => {
                    let _ = g.e.format_term(t);
                }
                Narsese::Sentence(s) => {
                    let _ = (g.e.format_term(s.get_term()), g.e.format_punctuation(s.get_punctuation()), g.e.format_stamp(s.get_stamp()));
                    let _ = (s.get_punctuation().format_to(g.e), s.get_stamp().format_to(g.e));
                    if let Some(t) = s.get_truth() {
                        let _ = (g.e.format_truth(t), t.format_to(g.e));
                    }
                }
                Narsese::Task(t) => {
                    let _ = (g.e.format_term(t.get_term()), g.e.format_punctuation(t.get_punctuation()), g.e.format_stamp(t.get_stamp()));
                    let _ = (g.e.format_budget(t.get_budget()), t.get_budget().format_to(g.e));
                    if let Some(tr) = t.get_truth() {
                        let _ = (g.e.format_truth(tr), tr.format_to(g.e));
                    }
                }
            }
        }
    }))
    .map_err(|p| format!("formatting an item of the value on its own panics: {p}"))
}

fn sentence_term(s: &narsese::enum_narsese::Sentence) -> &Term {
    use narsese::enum_narsese::Sentence::*;
    match s {
        Judgement(t, ..) | Goal(t, ..) | Question(t, ..) | Quest(t, ..) => t,
    }
}
fn sentence_truth(s: &narsese::enum_narsese::Sentence) -> Vec<f64> {
    use narsese::enum_narsese::Sentence::*;
    match s {
        Judgement(_, tr, _) | Goal(_, tr, _) => truth_floats(tr),
        _ => vec![],
    }
}

/// the stand-alone truth / budget parsers must only return numbers in [0,1] as well
pub fn case_side_doors(f: &F, s: &str) -> Result<bool, String> {
    use narsese::enum_narsese::{Budget, Truth};
    let f2 = *f;
    let s2 = s.to_string();
    let r = quiet_catch(AssertUnwindSafe(move || (f2.e.parse::<Truth>(&s2).ok(), f2.e.parse::<Budget>(&s2).ok())));
    let Ok((t, b)) = r else { return Ok(false) };
    let mut any = false;
    if let Some(t) = t {
        any = true;
        for x in truth_floats(&t) {
            if !in01(x) {
                return Err(format!("parse::<Truth>({s:?}) returns {t:?} with a component outside [0,1]"));
            }
        }
    }
    if let Some(b) = b {
        any = true;
        for x in budget_floats(&b) {
            if !in01(x) {
                return Err(format!("parse::<Budget>({s:?}) returns {b:?} with a component outside [0,1]"));
            }
        }
    }
    Ok(any)
}

/// `parse::<NarseseOptions<..>>` (the item-wise public entry point): whatever items it returns obey the
/// same ranges / image-index / non-empty-name / non-empty-compound rules
pub fn case_options(f: &F, s: &str) -> Result<bool, String> {
    let f2 = *f;
    let s2 = s.to_string();
    let r = quiet_catch(AssertUnwindSafe(move || f2.e.parse::<c04::Options>(&s2).ok()));
    let Ok(Some(o)) = r else { return Ok(false) };
    for x in o.truth.iter().flat_map(truth_floats).chain(o.budget.iter().flat_map(budget_floats)) {
        if !in01(x) {
            return Err(format!("parse::<NarseseOptions>({s:?}) returns {o:?} with a truth/budget component outside [0,1]"));
        }
    }
    if let Some(t) = &o.term {
        wf_term(t, true).map_err(|e| format!("parse::<NarseseOptions>({s:?}) returns the term {} : {e}", R::of_term(t).show()))?;
    }
    Ok(o.term.is_some() || o.truth.is_some() || o.budget.is_some())
}

pub fn case_parse(f: &F, s: &str) -> Result<bool, String> {
    match ops::parse_enum(f, s) {
        Ok(n) => wf(&n, true).map(|_| true).map_err(|e| format!("enum parser accepts {s:?} as {} : {e}", show_cv(&cv_of(&n)))),
        Err(_) => Ok(false),
    }
}

pub fn case_fold(f: &F, x: &narsese::lexical::Narsese) -> Result<bool, String> {
    match ops::fold(f, x.clone()) {
        Ok(n) => wf(&n, false).map(|_| true).map_err(|e| format!("fold ({}) of {x:?} gives {} : {e}", f.name, show_cv(&cv_of(&n)))),
        Err(_) => Ok(false),
    }
}

pub fn case_text_fold(f: &F, s: &str) -> Result<bool, String> {
    match ops::parse_lex(f, s) {
        Ok(x) => case_fold(f, &x).map_err(|e| format!("text {s:?}: {e}")),
        Err(_) => Ok(false),
    }
}

pub fn replay_case(c: &J) -> Result<(), String> {
    let f = fmts::by_name(c["format"].as_str().unwrap_or("ascii"));
    match c["op"].as_str() {
        Some("fold_wf") => case_fold(&f, &ln_from_json(&c["value"])).map(|_| ()),
        Some("side_door_wf") => case_side_doors(&f, c["input"].as_str().unwrap_or("")).map(|_| ()),
        Some("options_wf") => case_options(&f, c["input"].as_str().unwrap_or("")).map(|_| ()),
        Some("text_fold_wf") => case_text_fold(&f, c["input"].as_str().unwrap_or("")).map(|_| ()),
        _ => case_parse(&f, c["input"].as_str().unwrap_or("")).map(|_| ()),
    }
}

pub fn run(run: &Run) {
    run.rule(
        "every Ok value returned by the enum parser on the C04 string spaces (G1 u G2 u G3, x 3 \
         formats), by fold on the C05 hostile lexical universe (x 3 folders) and by lexical parse + \
         fold on the same string spaces: ranges, image index, non-empty names, (parser only) no \
         empty compound/set; then format in all 3 formats and render to Typst under catch_unwind; \
         distinct = distinct accepted values (canonical form, hashed)",
    );
    run.assume("'(/, _)' (an image consisting only of its placeholder) is not counted as an empty compound");
    let pool = c04::small_stack_pool();
    let accepted = crate::distinct::Distinct::new();
    for f in fmts::all() {
        c04::for_each_string(run, &f, &pool, &|s| {
            run.eval(1);
            match crate::watch::tagged(f.name, s, || case_parse(&f, s)) {
                Ok(true) => {
                    accepted.add(&format!("{}:{s}", f.name));
                }
                Ok(false) => {}
                Err(msg) => run.violation(&format!("[{}] {}", f.name, msg), json!({"op": "parse_wf", "format": f.name, "input": s}), &[]),
            }
            run.eval(1);
            match case_side_doors(&f, s) {
                Ok(true) => {
                    accepted.add(&format!("{}:side:{s}", f.name));
                }
                Ok(false) => {}
                Err(msg) => run.violation(&format!("[{}] {}", f.name, msg), json!({"op": "side_door_wf", "format": f.name, "input": s}), &[]),
            }
            run.eval(1);
            match case_options(&f, s) {
                Ok(true) => {
                    accepted.add(&format!("{}:options:{s}", f.name));
                }
                Ok(false) => {}
                Err(msg) => run.violation(&format!("[{}] {}", f.name, msg), json!({"op": "options_wf", "format": f.name, "input": s}), &[]),
            }
            run.eval(1);
            match crate::watch::tagged(f.name, s, || case_text_fold(&f, s)) {
                Ok(true) => {
                    accepted.add(&format!("{}:fold:{s}", f.name));
                }
                Ok(false) => {}
                Err(msg) => run.violation(&format!("[{}] {}", f.name, msg), json!({"op": "text_fold_wf", "format": f.name, "input": s}), &[]),
            }
        });
    }
    let vals = c05::hostile_values(run.tier == Tier::Thorough);
    for f in fmts::all() {
        pool.install(|| {
            vals.par_iter().for_each(|x| {
                run.eval(1);
                match crate::watch::tagged(&format!("fold:{}", f.name), &ln_to_json(x).to_string(), || case_fold(&f, x)) {
                    Ok(true) => {
                        accepted.add(&format!("{}:{x:?}", f.name));
                    }
                    Ok(false) => {}
                    Err(msg) => run.violation(&msg, json!({"op": "fold_wf", "format": f.name, "value": ln_to_json(x)}), &[]),
                }
            });
        });
    }
    run.add_distinct(accepted.len());
    run.sample(json!({"accepted_example": "see counters; every accepted value was re-formatted in 3 formats and rendered to Typst"}));
    run.sample(json!({"hostile_value": ln_to_json(&vals[vals.len() / 3])}));
}
