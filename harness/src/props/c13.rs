//! C13 - truth, budget and evidence numbers accept exactly the closed unit interval.

use crate::report::{quiet_catch, Run, Tier};
use narsese::api::EvidentNumber;
use narsese::enum_narsese::{Budget, Truth};
use rayon::prelude::*;
use serde_json::{json, Value as J};
use std::panic::AssertUnwindSafe;

pub fn alphabet() -> Vec<f64> {
    vec![
        f64::NEG_INFINITY,
        -1.0,
        -5e-324,
        -0.0,
        0.0,
        5e-324,
        2.2250738585072014e-308,
        0.1,
        0.5,
        1.0 - f64::EPSILON / 2.0,
        1.0,
        1.0 + f64::EPSILON,
        1.5,
        2.0,
        1e308,
        f64::INFINITY,
        f64::NAN,
        -f64::NAN,
        0.30000000000000004,
        1e-7,
        0.9999999999999999,
    ]
}

/// the oracle: 0 <= x <= 1 (so -0.0 is valid, NaN is not)
pub fn valid(x: f64) -> bool {
    0.0 <= x && x <= 1.0
}

/// the supplied / stored / returned numbers as *numbers*: +0 and -0 are the same number of [0,1]
/// (a constructor may store +0 for a supplied -0 without changing any number); every other valid
/// value has one bit pattern
fn bits(v: &[f64]) -> Vec<u64> {
    v.iter().map(|x| num(*x)).collect()
}
fn num(x: f64) -> u64 {
    if x == 0.0 { 0 } else { x.to_bits() }
}

pub fn check_truth(xs: &[f64]) -> Result<(), String> {
    let used = &xs[..xs.len().min(2)];
    let expect_ok = used.iter().all(|x| valid(*x));
    let xs_owned = xs.to_vec();
    let r = quiet_catch(AssertUnwindSafe(|| Truth::try_from_floats(xs_owned.into_iter())));
    let r = r.map_err(|p| format!("Truth::try_from_floats({xs:?}) panics: {p}"))?;
    match (&r, expect_ok) {
        (Ok(t), true) => {
            let stored: Vec<f64> = match t {
                Truth::Empty => vec![],
                Truth::Single(f) => vec![*f],
                Truth::Double(f, c) => vec![*f, *c],
            };
            if bits(&stored) != bits(used) {
                return Err(format!("Truth::try_from_floats({xs:?}) stores {stored:?}"));
            }
            // accessors: stored numbers unchanged; panic exactly for missing components
            let f = quiet_catch(AssertUnwindSafe(|| t.f()));
            let c = quiet_catch(AssertUnwindSafe(|| t.c()));
            match (used.len(), &f, &c) {
                (0, Err(_), Err(_)) => {}
                (1, Ok(a), Err(_)) if num(*a) == num(used[0]) => {}
                (2, Ok(a), Ok(b)) if num(*a) == num(used[0]) && num(*b) == num(used[1]) => {}
                _ => return Err(format!("accessors of Truth built from {used:?}: f() = {f:?}, c() = {c:?}")),
            }
            // every other public getter (the EvidentValue trait: get_frequency, get_confidence,
            // frequency, confidence, get_frequency_confidence) agrees with f() / c(), value and panic
            {
                use narsese::api::EvidentValue;
                let b = |r: &Result<f64, String>| r.as_ref().ok().map(|x| num(*x));
                let gf = quiet_catch(AssertUnwindSafe(|| EvidentValue::get_frequency(t)));
                let gc = quiet_catch(AssertUnwindSafe(|| EvidentValue::get_confidence(t)));
                let ff = quiet_catch(AssertUnwindSafe(|| EvidentValue::frequency(t)));
                let cc = quiet_catch(AssertUnwindSafe(|| EvidentValue::confidence(t)));
                let fc = quiet_catch(AssertUnwindSafe(|| EvidentValue::get_frequency_confidence(t)));
                if b(&gf) != b(&f) || b(&ff) != b(&f) || b(&gc) != b(&c) || b(&cc) != b(&c) {
                    return Err(format!("trait getters of Truth built from {used:?} disagree with f()/c(): get_frequency = {gf:?}, frequency = {ff:?}, get_confidence = {gc:?}, confidence = {cc:?}"));
                }
                match (&fc, &f, &c) {
                    (Ok((x, y)), Ok(a), Ok(bb)) if num(*x) == num(*a) && num(*y) == num(*bb) => {}
                    (Err(_), _, _) if f.is_err() || c.is_err() => {}
                    _ => return Err(format!("get_frequency_confidence() of Truth built from {used:?} = {fc:?}, but f() = {f:?} and c() = {c:?}")),
                }
                // the (V, V) tuple instance of the same trait
                if used.len() == 2 {
                    let tup = (used[0], used[1]);
                    let (x, y) = EvidentValue::get_frequency_confidence(&tup);
                    if x.to_bits() != used[0].to_bits() || y.to_bits() != used[1].to_bits() || EvidentValue::frequency(&tup).to_bits() != used[0].to_bits() || EvidentValue::confidence(&tup).to_bits() != used[1].to_bits() {
                        return Err(format!("EvidentValue getters of the tuple {tup:?} do not return its components"));
                    }
                }
            }
        }
        (Err(_), false) => {}
        (Ok(t), false) => return Err(format!("Truth::try_from_floats({xs:?}) accepts an out-of-range component: {t:?}")),
        (Err(e), true) => return Err(format!("Truth::try_from_floats({xs:?}) rejects valid components: {e}")),
    }
    // panicking constructors panic exactly when the fallible one fails
    if (1..=2).contains(&xs.len()) {
        let v = xs.to_vec();
        let p = quiet_catch(AssertUnwindSafe(move || if v.len() == 1 { Truth::new_single(v[0]) } else { Truth::new_double(v[0], v[1]) }));
        if p.is_ok() != expect_ok {
            return Err(format!("Truth::new_*({xs:?}) {} but try_from_floats {}", if p.is_ok() { "returns" } else { "panics" }, if expect_ok { "succeeds" } else { "fails" }));
        }
        if let Ok(t) = p {
            if Ok(&t) != r.as_ref() && !(xs.iter().any(|x| *x == 0.0)) {
                return Err(format!("Truth::new_*({xs:?}) = {t:?} differs from try_from_floats"));
            }
        }
    }
    Ok(())
}

/// The same components supplied through iterators of different shapes: exact size (Vec), lower
/// size bound 0 (filter), no bounds at all (from_fn), by-reference adaptor (copied). The outcome must not
/// depend on the shape.
pub const SUPPLY_MODES: [&str; 4] = ["vec", "filter", "from_fn", "copied"];
pub fn supply(xs: &[f64], mode: usize) -> Box<dyn Iterator<Item = f64>> {
    let v = xs.to_vec();
    match mode {
        0 => Box::new(v.into_iter()),
        1 => Box::new(v.into_iter().filter(|_| true)),
        2 => {
            let mut i = 0usize;
            Box::new(std::iter::from_fn(move || {
                i += 1;
                v.get(i - 1).copied()
            }))
        }
        _ => {
            let leaked: &'static [f64] = Box::leak(v.into_boxed_slice());
            Box::new(leaked.iter().copied())
        }
    }
}

pub fn check_supply(xs: &[f64]) -> Result<(), String> {
    let show = |r: &Result<String, String>| match r {
        Ok(v) => format!("Ok({v})"),
        Err(p) => format!("panic({p})"),
    };
    let t0 = quiet_catch(AssertUnwindSafe(|| format!("{:?}", Truth::try_from_floats(supply(xs, 0)).map_err(|_| ()))));
    let b0 = quiet_catch(AssertUnwindSafe(|| format!("{:?}", Budget::try_from_floats(supply(xs, 0)).map_err(|_| ()))));
    for mode in 1..4 {
        let t = quiet_catch(AssertUnwindSafe(|| format!("{:?}", Truth::try_from_floats(supply(xs, mode)).map_err(|_| ()))));
        if t != t0 {
            return Err(format!("Truth::try_from_floats({xs:?}) supplied through a {:?} iterator gives {} but through a Vec gives {}", SUPPLY_MODES[mode], show(&t), show(&t0)));
        }
        let b = quiet_catch(AssertUnwindSafe(|| format!("{:?}", Budget::try_from_floats(supply(xs, mode)).map_err(|_| ()))));
        if b != b0 {
            return Err(format!("Budget::try_from_floats({xs:?}) supplied through a {:?} iterator gives {} but through a Vec gives {}", SUPPLY_MODES[mode], show(&b), show(&b0)));
        }
    }
    Ok(())
}

pub fn check_budget(xs: &[f64]) -> Result<(), String> {
    let used = &xs[..xs.len().min(3)];
    let expect_ok = used.iter().all(|x| valid(*x));
    let xs_owned = xs.to_vec();
    let r = quiet_catch(AssertUnwindSafe(|| Budget::try_from_floats(xs_owned.into_iter())));
    let r = r.map_err(|p| format!("Budget::try_from_floats({xs:?}) panics: {p}"))?;
    match (&r, expect_ok) {
        (Ok(b), true) => {
            let stored: Vec<f64> = match b {
                Budget::Empty => vec![],
                Budget::Single(p) => vec![*p],
                Budget::Double(p, d) => vec![*p, *d],
                Budget::Triple(p, d, q) => vec![*p, *d, *q],
            };
            if bits(&stored) != bits(used) {
                return Err(format!("Budget::try_from_floats({xs:?}) stores {stored:?}"));
            }
            if b.is_empty() != used.is_empty() {
                return Err(format!("Budget::is_empty() = {} for {stored:?}", b.is_empty()));
            }
            let acc = [
                quiet_catch(AssertUnwindSafe(|| b.p())),
                quiet_catch(AssertUnwindSafe(|| b.d())),
                quiet_catch(AssertUnwindSafe(|| b.q())),
            ];
            let acc2 = [
                quiet_catch(AssertUnwindSafe(|| b.priority())),
                quiet_catch(AssertUnwindSafe(|| b.duality())),
                quiet_catch(AssertUnwindSafe(|| b.quality())),
            ];
            for i in 0..3 {
                for a in [&acc[i], &acc2[i]] {
                    match (i < used.len(), a) {
                        (true, Ok(x)) if num(*x) == num(used[i]) => {}
                        (false, Err(_)) => {}
                        _ => return Err(format!("accessor #{i} of Budget built from {used:?} gives {a:?}")),
                    }
                }
            }
        }
        (Err(_), false) => {}
        (Ok(b), false) => return Err(format!("Budget::try_from_floats({xs:?}) accepts an out-of-range component: {b:?}")),
        (Err(e), true) => return Err(format!("Budget::try_from_floats({xs:?}) rejects valid components: {e}")),
    }
    if (1..=3).contains(&xs.len()) {
        let v = xs.to_vec();
        let p = quiet_catch(AssertUnwindSafe(move || match v.len() {
            1 => Budget::new_single(v[0]),
            2 => Budget::new_double(v[0], v[1]),
            _ => Budget::new_triple(v[0], v[1], v[2]),
        }));
        if p.is_ok() != expect_ok {
            return Err(format!("Budget::new_*({xs:?}) {} but try_from_floats {}", if p.is_ok() { "returns" } else { "panics" }, if expect_ok { "succeeds" } else { "fails" }));
        }
    }
    Ok(())
}

pub fn check_number(x: f64) -> Result<(), String> {
    let v = valid(x);
    if x.is_valid() != v {
        return Err(format!("is_valid({x:?}) = {}, expected {v}", x.is_valid()));
    }
    if x.try_validate().is_ok() != v {
        return Err(format!("try_validate({x:?}) is {}", if x.try_validate().is_ok() { "Ok" } else { "Err" }));
    }
    if let Ok(y) = x.try_validate() {
        if y.to_bits() != x.to_bits() {
            return Err(format!("try_validate({x:?}) returns {y:?}"));
        }
    }
    let p = quiet_catch(move || *x.validate());
    if p.is_ok() != v {
        return Err(format!("validate({x:?}) {} but is_valid is {v}", if p.is_ok() { "returns" } else { "panics" }));
    }
    if v {
        for n in [0usize, 1, 2, 3, 4, 64, usize::MAX] {
            let r = quiet_catch(move || x.root(n)).map_err(|p| format!("root({x:?}, {n}) panics: {p}"))?;
            if !valid(r) {
                return Err(format!("root({x:?}, {n}) = {r:?} is not a valid evidence number"));
            }
        }
    }
    Ok(())
}

pub fn replay_case(c: &J) -> Result<(), String> {
    let xs: Vec<f64> = c["bits"].as_array().map(|a| a.iter().map(|b| f64::from_bits(u64::from_str_radix(b.as_str().unwrap_or("0"), 16).unwrap_or(0))).collect()).unwrap_or_default();
    match c["op"].as_str() {
        Some("truth_floats") => check_truth(&xs),
        Some("budget_floats") => check_budget(&xs),
        Some("supply_modes") => check_supply(&xs),
        _ => check_number(xs.first().copied().unwrap_or(0.0)),
    }
}

fn cj(op: &str, xs: &[f64]) -> J {
    json!({"op": op, "bits": xs.iter().map(|x| format!("{:016x}", x.to_bits())).collect::<Vec<_>>(), "approx": format!("{xs:?}")})
}

pub fn run(run: &Run) {
    run.rule(
        "21-value float alphabet (-inf, negatives, -5e-324, -0.0, 0, subnormal, min normal, 0.1, \
         0.5, 1-ulp, 1, 1+ulp, 1.5, 2, 1e308, +inf, NaN, -NaN, ...); every tuple of arity 0..=4 (5 \
         thorough) through Truth/Budget::try_from_floats, arity 1..=3 through the panicking \
         constructors, every accessor on every constructed value; every tuple of arity <= 4 also supplied through iterators with size_hint (0, Some n) / (0, None), outcome compared with the Vec supply; is_valid / try_validate / \
         validate / root(n in 0..=4, 64, usize::MAX) / zero / one on every float; distinct = \
         tuples accepted by at least one constructor",
    );
    run.assume("f64 is the only EvidentNumber instance the crate ships (f32 lacks From<f64>)");
    let a = alphabet();
    let n = a.len();
    let max_arity = run.tier.pick(4usize, 5usize);
    run.bound("max_arity", json!(max_arity));
    run.bound("float_alphabet", json!(n));
    let total: usize = (0..=max_arity).map(|k| n.pow(k as u32)).sum();
    let accepted = std::sync::atomic::AtomicU64::new(0);
    (0..total).into_par_iter().for_each(|mut idx| {
        let mut len = 0;
        loop {
            let c = n.pow(len as u32);
            if idx < c {
                break;
            }
            idx -= c;
            len += 1;
        }
        let mut xs = Vec::with_capacity(len);
        for _ in 0..len {
            xs.push(a[idx % n]);
            idx /= n;
        }
        run.eval(2);
        if xs.iter().take(2).all(|x| valid(*x)) || xs.iter().take(3).all(|x| valid(*x)) {
            accepted.fetch_add(1, std::sync::atomic::Ordering::Relaxed);
        }
        if let Err(msg) = check_truth(&xs) {
            run.violation(&msg, cj("truth_floats", &xs), &[]);
        }
        if let Err(msg) = check_budget(&xs) {
            run.violation(&msg, cj("budget_floats", &xs), &[]);
        }
        if xs.len() <= 4 {
            run.eval(6);
            if let Err(msg) = check_supply(&xs) {
                run.violation(&msg, cj("supply_modes", &xs), &[]);
            }
        }
    });
    for x in &a {
        run.eval(1);
        if let Err(msg) = check_number(*x) {
            run.violation(&msg, cj("evident_number", &[*x]), &[]);
        }
    }
    run.eval(2);
    if <f64 as EvidentNumber>::zero().to_bits() != 0.0f64.to_bits() || <f64 as EvidentNumber>::one().to_bits() != 1.0f64.to_bits() {
        run.violation("EvidentNumber::zero()/one() are not 0.0 / 1.0", json!({"op": "evident_number", "bits": []}), &[]);
    }
    run.add_distinct(accepted.load(std::sync::atomic::Ordering::Relaxed));
    run.sample(json!({"tuple": "[0.5, 1+ulp, NaN] -> Truth Err (2nd component), Budget Err"}));
    run.sample(json!({"alphabet": a.iter().map(|x| format!("{x:?}")).collect::<Vec<_>>()}));
    let _ = Tier::Quick;
}
