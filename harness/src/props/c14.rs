//! C14 - component access, category and capacity of terms are mutually consistent.

use crate::env;
use crate::fmts;
use crate::lexu;
use crate::model::*;
use crate::ops;
use crate::report::{quiet_catch, Run};
use crate::universe as u;
use narsese::api::{ExtractTerms, GetCapacity, GetCategory, TermCategory};
use narsese::enum_narsese::Term;
use narsese::lexical::{Narsese as LN, Term as LTerm};
use rayon::prelude::*;
use serde_json::{json, Value as J};
use std::panic::AssertUnwindSafe;

fn canon_list(v: &[&Term]) -> Vec<R> {
    v.iter().map(|t| R::canon_of_term(t)).collect()
}

/// the oracle for one built term against the recipe it was built from
pub fn check_term(r: &R, t: &Term) -> Result<(), String> {
    let shape = r.tag.shape();
    let with_ph = canon_list(&t.get_components_including_placeholder());
    let plain = canon_list(&t.get_components());
    let extracted: Vec<R> = t.clone().extract_terms_to_vec().iter().map(R::canon_of_term).collect();
    let kids: Vec<R> = r.kids.iter().map(|k| k.canon()).collect();
    let sorted = |v: &Vec<R>| {
        let mut v = v.clone();
        v.sort();
        v
    };
    // 1. extraction == borrowing accessor incl. placeholder
    if shape == Shape::Set {
        if sorted(&extracted) != sorted(&with_ph) {
            return Err(format!("extract_terms gives {:?} but get_components_including_placeholder gives {:?}", show_list(&extracted), show_list(&with_ph)));
        }
    } else if extracted != with_ph {
        return Err(format!("extract_terms gives {:?} but get_components_including_placeholder gives {:?}", show_list(&extracted), show_list(&with_ph)));
    }
    // 2. against the recipe (independent expectation)
    match shape {
        Shape::Atom => {
            if plain != vec![r.canon()] || with_ph != vec![r.canon()] {
                return Err(format!("components of an atom should be the atom itself, got {:?}", show_list(&plain)));
            }
        }
        Shape::Set => {
            let mut k = kids.clone();
            k.sort();
            k.dedup();
            if sorted(&plain) != k {
                return Err(format!("get_components gives {:?}, the term was built from the set {:?}", show_list(&plain), show_list(&k)));
            }
        }
        Shape::Image => {
            if plain != kids {
                return Err(format!("get_components of an image gives {:?}, built from {:?}", show_list(&plain), show_list(&kids)));
            }
            let mut expect = kids.clone();
            expect.insert(r.idx, R::placeholder());
            if with_ph != expect {
                return Err(format!("components incl. placeholder are {:?}, expected {:?} (placeholder at index {})", show_list(&with_ph), show_list(&expect), r.idx));
            }
            if extracted.get(r.idx).map(|x| x.tag) != Some(Tag::Placeholder) {
                return Err(format!("extract_terms does not have the placeholder at its recorded index {}: {:?}", r.idx, show_list(&extracted)));
            }
        }
        Shape::SymPair => {
            // symmetric operands: only the pair as a multiset is demanded
            if sorted(&plain) != sorted(&kids) {
                return Err(format!("get_components gives {:?}, built from {:?}", show_list(&plain), show_list(&kids)));
            }
        }
        Shape::Pair | Shape::Seq | Shape::Unary => {
            if plain != kids {
                return Err(format!("get_components gives {:?}, built from {:?}", show_list(&plain), show_list(&kids)));
            }
        }
    }
    if shape != Shape::Image && with_ph != plain && shape != Shape::Set {
        return Err("get_components_including_placeholder differs from get_components for a non-image".into());
    }
    // 3. get_compound_components
    let cc = t.get_compound_components().map(|v| canon_list(&v));
    match (r.tag.is_compound(), cc) {
        (true, Some(v)) => {
            if (shape == Shape::Set && sorted(&v) != sorted(&plain)) || (shape != Shape::Set && v != plain) {
                return Err("get_compound_components differs from get_components".into());
            }
        }
        (false, None) => {}
        (true, None) => return Err("get_compound_components is None for a compound".into()),
        (false, Some(_)) => return Err("get_compound_components is Some for a non-compound".into()),
    }
    // 4. category
    let cat = (t.is_atom(), t.is_compound(), t.is_statement());
    let expect_cat = (r.tag.is_atom(), r.tag.is_compound(), r.tag.is_statement());
    if cat != expect_cat {
        return Err(format!("(is_atom,is_compound,is_statement) = {cat:?}, expected {expect_cat:?}"));
    }
    let c = t.get_category();
    let expect_c = if r.tag.is_atom() { TermCategory::Atom } else if r.tag.is_compound() { TermCategory::Compound } else { TermCategory::Statement };
    if c != expect_c {
        return Err(format!("get_category = {c:?}, expected {expect_c:?}"));
    }
    // 5. capacity predicates: (atom, unary, binary, binary_vec, binary_set, multi, vec, set)
    let caps = (
        t.is_capacity_atom(), t.is_capacity_unary(), t.is_capacity_binary(), t.is_capacity_binary_vec(),
        t.is_capacity_binary_set(), t.is_capacity_multi(), t.is_capacity_vec(), t.is_capacity_set(),
    );
    let expect_caps = match shape {
        Shape::Atom => (true, false, false, false, false, false, false, false),
        Shape::Unary => (false, true, false, false, false, false, false, false),
        Shape::Pair => (false, false, true, true, false, false, false, false),
        Shape::SymPair => (false, false, true, false, true, false, false, false),
        Shape::Seq | Shape::Image => (false, false, false, false, false, true, true, false),
        Shape::Set => (false, false, false, false, false, true, false, true),
    };
    if caps != expect_caps {
        return Err(format!("capacity predicates {caps:?}, expected {expect_caps:?}"));
    }
    let n = plain.len();
    let count_ok = match shape {
        Shape::Atom | Shape::Unary => n == 1,
        Shape::Pair | Shape::SymPair => n == 2,
        _ => true,
    };
    if !count_ok {
        return Err(format!("capacity class {:?} but {} components", t.get_capacity(), n));
    }
    // "the ordered / unordered nature of the term": a binary term whose two components differ equals the term with
    // the components swapped exactly when its capacity class says it is a binary SET
    if matches!(shape, Shape::Pair | Shape::SymPair) && r.kids.len() == 2 && r.kids[0].canon() != r.kids[1].canon() {
        let swapped = R { tag: r.tag, name: r.name.clone(), idx: r.idx, kids: vec![r.kids[1].clone(), r.kids[0].clone()] };
        if let Ok(sw) = quiet_catch(AssertUnwindSafe(|| swapped.build())) {
            let same = &sw == t;
            if same != t.is_capacity_binary_set() {
                return Err(format!("capacity class {:?}, but the term {} the same term with its two components swapped", t.get_capacity(), if same { "equals" } else { "differs from" }));
            }
        }
    }
    // the class's own component count ("atoms and unary one, binary two"; nothing is demanded of the multi classes)
    let base = t.get_capacity().base_num();
    let base_ok = match shape {
        Shape::Atom | Shape::Unary => base == 1,
        Shape::Pair | Shape::SymPair => base == 2,
        _ => true,
    };
    if !base_ok {
        return Err(format!("capacity class {:?} reports base_num {} but the term holds {} components", t.get_capacity(), base, n));
    }
    Ok(())
}

fn show_list(v: &[R]) -> Vec<String> {
    v.iter().map(|r| r.show()).collect()
}

pub fn case(r: &R, script: &[u64]) -> Result<(), String> {
    let r2 = r.clone();
    let script = script.to_vec();
    if r.has_any_placeholder_component_in_image() {
        let r3 = r.clone();
        if quiet_catch(AssertUnwindSafe(move || r3.build())).is_err() {
            return Ok(()); // a stricter constructor refused KF-1's shape: not constructible, nothing to check
        }
    }
    match quiet_catch(AssertUnwindSafe(move || {
        let (t, _) = narsese::verif_hooks::with_seed_script(&script, || r2.build());
        check_term(&r2, &t)?;
        // the same on a clone (containers reallocated at exactly their length)
        check_term(&r2, &t.clone()).map_err(|e| format!("on a clone of the term: {e}"))
    })) {
        Ok(x) => x,
        Err(p) => Err(format!("panic: {p}")),
    }
}

fn lex_category(t: &LTerm) -> TermCategory {
    match t {
        LTerm::Atom { .. } => TermCategory::Atom,
        LTerm::Compound { .. } | LTerm::Set { .. } => TermCategory::Compound,
        LTerm::Statement { .. } => TermCategory::Statement,
    }
}

pub fn case_lex(f: &fmts::F, x: &LTerm) -> Result<(), String> {
    let stored: Vec<LTerm> = match x {
        LTerm::Atom { .. } => vec![x.clone()],
        LTerm::Compound { terms, .. } | LTerm::Set { terms, .. } => terms.clone(),
        LTerm::Statement { subject, predicate, .. } => vec![(**subject).clone(), (**predicate).clone()],
    };
    let got = x.clone().extract_terms_to_vec();
    if got != stored {
        return Err(format!("lexical extract_terms gives {got:?}, stored components are {stored:?}"));
    }
    if x.get_category() != lex_category(x) {
        return Err(format!("lexical category {:?} for {x:?}", x.get_category()));
    }
    let cat3 = (x.is_atom(), x.is_compound(), x.is_statement());
    if [cat3.0, cat3.1, cat3.2].iter().filter(|b| **b).count() != 1 {
        return Err(format!("lexical category predicates {cat3:?}"));
    }
    if let Ok(narsese::enum_narsese::Narsese::Term(t)) = ops::fold(f, LN::Term(x.clone())) {
        if t.get_category() != x.get_category() {
            return Err(format!("lexical term {x:?} has category {:?} but folds to {} of category {:?}", x.get_category(), R::of_term(&t).show(), t.get_category()));
        }
    }
    Ok(())
}

pub fn replay_case(c: &J) -> Result<(), String> {
    match c["op"].as_str() {
        Some("lexical_components") => {
            let f = fmts::by_name(c["format"].as_str().unwrap_or("ascii"));
            case_lex(&f, &crate::props::c02::lterm_from_json(&c["term"]))
        }
        _ => {
            let r = R::from_json(&c["term"]);
            let script: Vec<u64> = c["seed_script"].as_array().map(|a| a.iter().filter_map(|x| x.as_u64()).collect()).unwrap_or_default();
            case(&r, &script)
        }
    }
}

pub fn run(run: &Run) {
    run.rule(
        "every term of U_term (every constructor, every image index 0..=n, duplicates, nesting) built \
         through the public constructors: consuming extraction vs both borrowing accessors vs the \
         recipe, category and the 8 capacity predicates vs the constructor's class; unordered terms \
         additionally under every distinguishable iteration order of their sets; every lexical term \
         of the C02 universe: extraction = stored components, category = category of its fold; \
         distinct = distinct non-atom recipes",
    );
    let tier = run.tier;
    let f0 = fmts::ascii();
    let mut terms = u::u_term(&f0, tier);
    terms.extend(u::huge_terms(4097).into_iter().filter(|r| r.size() > 1000 && !(r.tag == Tag::Product && r.kids.len() == 600))); // widths the lexical side cannot afford
    let distinct: std::collections::HashSet<&R> = terms.iter().filter(|r| !r.tag.is_atom()).collect();
    run.add_distinct(distinct.len() as u64);
    drop(distinct);
    run.sample(json!({"term": terms[terms.len() / 2].show()}));
    terms.par_iter().for_each(|r| {
        let _w = crate::watch::enter(&r.show());
        run.eval(1);
        if let Err(msg) = case(r, &[]) {
            run.violation(&format!("{} : {}", r.show(), msg), json!({"op": "components", "term": r.to_json(), "seed_script": []}), &[]);
        }
    });
    // order environments for unordered constructors
    let pool = u::pool(&f0);
    let mut fam: Vec<R> = vec![];
    for &tag in COMPOUND_TAGS.iter().filter(|t| t.shape() == Shape::Set) {
        for s in u::sequences(&pool[..4], 1, 3) {
            fam.push(R::node(tag, s));
        }
        fam.push(R::node(tag, vec![R::node(tag, vec![pool[0].clone(), pool[1].clone()]), R::image(Tag::ImageExt, 1, vec![pool[2].clone()]), pool[3].clone()]));
    }
    let max_keys = tier.pick(64, 192);
    fam.par_iter().for_each(|r| {
        let _w = crate::watch::enter(&r.show());
        let make = || r.build();
        env::explore(&make, &|t| R::of_term(t), max_keys, &mut |script, t| {
            run.eval(1);
            let res = quiet_catch(AssertUnwindSafe(|| check_term(r, &t)));
            let res = match res { Ok(x) => x, Err(p) => Err(format!("panic: {p}")) };
            if let Err(msg) = res {
                run.violation(&format!("{} under seed script {:?}: {}", r.show(), script, msg), json!({"op": "components", "term": r.to_json(), "seed_script": script}), &[]);
            }
        });
    });
    run.count("unordered_recipes_explored_under_all_orders", fam.len() as u64);
    // lexical side
    for f in fmts::all() {
        let lt = lexu::u_term(&f, 0, tier == crate::report::Tier::Thorough);
        run.add_distinct(lt.len() as u64);
        lt.par_iter().for_each(|x| {
            let _w = crate::watch::enter(&format!("{x:?}"));
            run.eval(1);
            let res = quiet_catch(AssertUnwindSafe(|| case_lex(&f, x)));
            let res = match res { Ok(x) => x, Err(p) => Err(format!("panic: {p}")) };
            if let Err(msg) = res {
                run.violation(&format!("[{}] {}", f.name, msg), json!({"op": "lexical_components", "format": f.name, "term": crate::props::c02::lterm_to_json(x)}), &[]);
            }
        });
    }
    // hostile lexical terms (any string in any field, foreign vocabulary) under every folder:
    // whenever one folds at all, the category must still agree
    let hostile = crate::hostile::terms(false);
    run.count("hostile_lexical_terms", hostile.len() as u64);
    run.add_distinct(hostile.len() as u64);
    for f in fmts::all() {
        hostile.par_iter().for_each(|x| {
            let _w = crate::watch::enter(&format!("{x:?}"));
            run.eval(1);
            let res = quiet_catch(AssertUnwindSafe(|| case_lex(&f, x)));
            let res = match res { Ok(x) => x, Err(p) => Err(format!("panic: {p}")) };
            if let Err(msg) = res {
                run.violation(&format!("[{}] {}", f.name, msg), json!({"op": "lexical_components", "format": f.name, "term": crate::props::c02::lterm_to_json(x)}), &[]);
            }
        });
    }
}
