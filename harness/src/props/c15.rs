//! C15 - term / sentence / task classification and conversions are lossless.

use crate::fmts::{self, F};
use crate::lexu;
use crate::model::*;
use crate::ops;
use crate::props::c02::{ln_from_json, ln_to_json};
use crate::report::{quiet_catch, Run};
use crate::universe as u;
use narsese::api::{CastToTask, NarseseValue, TryCastToSentence};
use narsese::enum_narsese::{Narsese, Task};
use narsese::lexical::Narsese as LN;
use rayon::prelude::*;
use serde_json::{json, Value as J};
use std::panic::AssertUnwindSafe;

fn kind_of<A, B, C>(n: &NarseseValue<A, B, C>) -> Kind {
    match n {
        NarseseValue::Term(_) => Kind::Term,
        NarseseValue::Sentence(_) => Kind::Sentence,
        NarseseValue::Task(_) => Kind::Task,
    }
}

/// The generic conversion laws, for any model whose values can be compared by `same`.
fn laws<T: Clone, S: Clone, K: Clone>(
    v: &NarseseValue<T, S, K>,
    same: &dyn Fn(&NarseseValue<T, S, K>, &NarseseValue<T, S, K>) -> bool,
    budget_is_empty: &dyn Fn(&K) -> bool,
    show: &dyn Fn(&NarseseValue<T, S, K>) -> String,
) -> Result<(), String>
where
    S: CastToTask<K>,
    K: TryCastToSentence<S>,
{
    let k = kind_of(v);
    // is_* agree with the variant
    if (v.is_term(), v.is_sentence(), v.is_task()) != (k == Kind::Term, k == Kind::Sentence, k == Kind::Task) {
        return Err(format!("is_term/is_sentence/is_task = {:?} for a {:?}", (v.is_term(), v.is_sentence(), v.is_task()), k));
    }
    // 3x3 accessor matrix on the wrapped value
    let t = v.clone().try_into_term();
    let s = v.clone().try_into_sentence();
    let ta = v.clone().try_into_task();
    if (t.is_ok(), s.is_ok(), ta.is_ok()) != (k == Kind::Term, k == Kind::Sentence, k == Kind::Task) {
        return Err(format!("try_into_term/sentence/task Ok-ness = {:?} for a {:?}", (t.is_ok(), s.is_ok(), ta.is_ok()), k));
    }
    // wrapping + matching accessor returns the value
    let back = match k {
        Kind::Term => NarseseValue::from_term(t.ok().unwrap()),
        Kind::Sentence => NarseseValue::from_sentence(s.ok().unwrap()),
        Kind::Task => NarseseValue::from_task(ta.ok().unwrap()),
    };
    if !same(&back, v) {
        return Err(format!("from_X(try_into_X(v)) = {} differs from v = {}", show(&back), show(v)));
    }
    // try_into_task_compatible
    let tc = v.clone().try_into_task_compatible();
    match (v, tc) {
        (NarseseValue::Term(_), Ok(_)) => return Err("try_into_task_compatible succeeds on a term".into()),
        (NarseseValue::Term(_), Err(_)) => {}
        (NarseseValue::Sentence(s), Ok(task)) => {
            let expect: NarseseValue<T, S, K> = NarseseValue::Task(s.clone().cast_to_task());
            if !same(&NarseseValue::Task(task.clone()), &expect) {
                return Err("try_into_task_compatible(sentence) differs from cast_to_task(sentence)".into());
            }
            if !budget_is_empty(&task) {
                return Err("cast_to_task gives a non-empty budget".into());
            }
            // cast back
            match task.try_cast_to_sentence() {
                Ok(s2) => {
                    if !same(&NarseseValue::Sentence(s2), v) {
                        return Err("try_cast_to_sentence(cast_to_task(s)) differs from s".into());
                    }
                }
                Err(_) => return Err("try_cast_to_sentence(cast_to_task(s)) is Err".into()),
            }
        }
        (NarseseValue::Task(_), Ok(task)) => {
            if !same(&NarseseValue::Task(task), v) {
                return Err("try_into_task_compatible(task) differs from the task".into());
            }
        }
        (_, Err(e)) => return Err(format!("try_into_task_compatible fails on a {:?}: {e}", k)),
    }
    // task -> sentence exactly when the budget is empty, else handed back unchanged
    if let NarseseValue::Task(task) = v {
        match (budget_is_empty(task), task.clone().try_cast_to_sentence()) {
            (true, Ok(s)) => {
                let again: NarseseValue<T, S, K> = NarseseValue::Task(s.cast_to_task());
                if !same(&again, v) {
                    return Err("cast_to_task(try_cast_to_sentence(task)) differs from the task".into());
                }
            }
            (false, Err(back)) => {
                if !same(&NarseseValue::Task(back), v) {
                    return Err("try_cast_to_sentence handed back a different task".into());
                }
            }
            (true, Err(_)) => return Err("try_cast_to_sentence fails although the budget is empty".into()),
            (false, Ok(_)) => return Err("try_cast_to_sentence succeeds although the budget is not empty (budget dropped)".into()),
        }
    }
    // NarseseValue-level TryCastToSentence
    match (v, v.clone().try_cast_to_sentence()) {
        (NarseseValue::Term(_), Err(b)) => {
            if !same(&b, v) { return Err("value-level try_cast_to_sentence(term) hands back a different value".into()); }
        }
        (NarseseValue::Term(_), Ok(_)) => return Err("value-level try_cast_to_sentence succeeds on a term".into()),
        (NarseseValue::Sentence(_), Ok(b)) => {
            if !same(&b, v) { return Err("value-level try_cast_to_sentence(sentence) changes the value".into()); }
        }
        (NarseseValue::Sentence(_), Err(_)) => return Err("value-level try_cast_to_sentence fails on a sentence".into()),
        (NarseseValue::Task(task), r) => match (budget_is_empty(task), r) {
            (true, Ok(NarseseValue::Sentence(s))) => {
                let again: NarseseValue<T, S, K> = NarseseValue::Task(s.cast_to_task());
                if !same(&again, v) { return Err("value-level cast of an empty-budget task loses information".into()); }
            }
            (false, Err(b)) => {
                if !same(&b, v) { return Err("value-level try_cast_to_sentence hands back a different task".into()); }
            }
            _ => return Err("value-level try_cast_to_sentence(task): Ok/Err does not follow budget emptiness".into()),
        },
    }
    Ok(())
}

pub fn case_enum(f: &F, v: &V) -> Result<(), String> {
    let n = v.build();
    laws::<_, _, Task>(
        &n,
        &|a, b| cv_of(a) == cv_of(b),
        &|t| matches!(t.1, narsese::enum_narsese::Budget::Empty),
        &|a| show_cv(&cv_of(a)),
    )?;
    // the std conversions out of the parser's result type (TryFrom<Narsese> for Term / Sentence /
    // Task, i.e. `.try_into()`): Ok exactly on the matching kind, and then the wrapped value
    {
        use narsese::enum_narsese::{Sentence as ES, Term as ET};
        let k = v.kind();
        let t = ET::try_from(n.clone());
        let s = ES::try_from(n.clone());
        let ta = Task::try_from(n.clone());
        if (t.is_ok(), s.is_ok(), ta.is_ok()) != (k == Kind::Term, k == Kind::Sentence, k == Kind::Task) {
            return Err(format!("Term/Sentence/Task::try_from(Narsese) Ok-ness = {:?} for a {:?}", (t.is_ok(), s.is_ok(), ta.is_ok()), k));
        }
        let back = match k {
            Kind::Term => Narsese::Term(t.ok().unwrap()),
            Kind::Sentence => Narsese::Sentence(s.ok().unwrap()),
            Kind::Task => Narsese::Task(ta.ok().unwrap()),
        };
        if cv_of(&back) != cv_of(&n) {
            return Err(format!("X::try_from(Narsese) returns {} for {}", show_cv(&cv_of(&back)), show_cv(&cv_of(&n))));
        }
    }
    // classification by both parsers
    // (the text of every public formatting route - each of them is "format(v)")
    let k = v.kind();
    for s in crate::props::c01::format_routes(f, &n) {
        match ops::parse_enum(f, &s) {
            Ok(p) if kind_of(&p) == k => {}
            Ok(p) => return Err(format!("{s:?} is a {:?} but the enum parser classifies it as {:?}", k, kind_of(&p))),
            Err(e) => return Err(format!("{s:?}: enum parser fails: {e}")),
        }
        match ops::parse_lex(f, &s) {
            Ok(p) if kind_of(&p) == k => {}
            Ok(p) => return Err(format!("{s:?} is a {:?} but the lexical parser classifies it as {:?}", k, kind_of(&p))),
            Err(e) => return Err(format!("{s:?}: lexical parser fails: {e}")),
        }
    }
    // a sentence cast to a task prints so that it parses to a task with an empty budget
    if let Narsese::Sentence(sen) = &n {
        let task: Task = sen.clone().cast_to_task();
        for txt in crate::props::c01::format_routes(f, &Narsese::Task(task.clone())) {
        match ops::parse_enum(f, &txt) {
            Ok(Narsese::Task(Task(s2, b))) => {
                if !matches!(b, narsese::enum_narsese::Budget::Empty) {
                    return Err(format!("{txt:?} parses to a task with budget {b:?}"));
                }
                if cv_of(&Narsese::Sentence(s2)) != cv_of(&n) {
                    return Err(format!("{txt:?} parses to a task over a different sentence"));
                }
            }
            Ok(other) => return Err(format!("cast_to_task(sentence) prints as {txt:?}, which parses to a {:?}, not a task", kind_of(&other))),
            Err(e) => return Err(format!("cast_to_task(sentence) prints as {txt:?}, which does not parse: {e}")),
        }
        match ops::parse_lex(f, &txt) {
            Ok(LN::Task(t)) if t.budget.is_empty() => {}
            Ok(other) => return Err(format!("{txt:?}: lexical parser gives {other:?}, expected a task with an empty budget")),
            Err(e) => return Err(format!("{txt:?}: lexical parser fails: {e}")),
        }
        }
    }
    Ok(())
}

pub fn case_lex(f: &F, x: &LN) -> Result<(), String> {
    laws::<_, _, narsese::lexical::Task>(x, &|a, b| a == b, &|t| t.budget.is_empty(), &|a| format!("{a:?}"))?;
    // the text of every public formatting route (the inherent methods, the generic `format` entry point, the
    // `FormatTo` trait on the wrapped and on the bare value)
    for s in crate::props::c02::format_routes(f, x) {
        match ops::parse_lex(f, &s) {
            Ok(p) if kind_of(&p) == kind_of(x) => {}
            Ok(p) => return Err(format!("{s:?} is a {:?} but the lexical parser classifies it as {:?}", kind_of(x), kind_of(&p))),
            Err(e) => return Err(format!("{s:?}: lexical parser fails: {e}")),
        }
    }
    if let LN::Sentence(sen) = x {
        let task: narsese::lexical::Task = sen.clone().cast_to_task();
        for txt in crate::props::c02::format_routes(f, &LN::Task(task.clone())) {
            match ops::parse_lex(f, &txt) {
                Ok(LN::Task(t)) if t.budget.is_empty() && &t.sentence == sen => {}
                Ok(other) => return Err(format!("lexical cast_to_task(sentence) prints as {txt:?}, which parses to {other:?}")),
                Err(e) => return Err(format!("lexical cast_to_task(sentence) prints as {txt:?}, which does not parse: {e}")),
            }
        }
    }
    Ok(())
}

/// classification rule on inputs assembled from optional items (not only on formatter output):
/// task iff budget and punctuation are present, sentence iff punctuation without budget, else term
pub fn case_items(f: &F, s: &str, expect: Kind) -> Result<u32, String> {
    let mut accepted = 0;
    if let Ok(n) = ops::parse_enum(f, s) {
        accepted += 1;
        if kind_of(&n) != expect {
            return Err(format!("{s:?} carries the items of a {expect:?} but the enum parser classifies it as {:?}", kind_of(&n)));
        }
    }
    if let Ok(n) = ops::parse_lex(f, s) {
        accepted += 1;
        if kind_of(&n) != expect {
            return Err(format!("{s:?} carries the items of a {expect:?} but the lexical parser classifies it as {:?}", kind_of(&n)));
        }
    }
    Ok(accepted)
}

pub fn item_inputs(f: &F) -> Vec<(String, Kind)> {
    use crate::emit;
    let s = &f.e.sentence;
    let t = &f.e.task;
    let mut out = vec![];
    let terms = [R::word("a"), R::pair(Tag::Inh, R::word("a"), R::atom(Tag::IVar, "b1")), R::node(Tag::SetExt, vec![R::word("a")])];
    let budgets: [Option<Vec<f64>>; 3] = [None, Some(vec![]), Some(vec![0.5, 0.25])];
    let puncts: [Option<P>; 5] = [None, Some(P::Judgement), Some(P::Goal), Some(P::Question), Some(P::Quest)];
    let stamps = [St::Eternal, St::Present, St::Fixed(-3)];
    // None = no truth written at all; Some([]) = the truth brackets written with nothing between them
    let truths: [Option<Vec<f64>>; 4] = [None, Some(vec![]), Some(vec![1.0]), Some(vec![1.0, 0.9])];
    for term in &terms {
        for b in &budgets {
            for p in &puncts {
                for st in &stamps {
                    for tr in &truths {
                        let mut toks: Vec<String> = vec![];
                        if let Some(b) = b {
                            emit::floats(t.budget_brackets.0, t.budget_separator, t.budget_brackets.1, b, &mut toks);
                        }
                        emit::term(f, term, &mut toks);
                        if let Some(p) = p {
                            toks.push(emit::punct(f, *p).to_string());
                        }
                        emit::stamp(f, *st, &mut toks);
                        if let Some(tr) = tr {
                            emit::floats(s.truth_brackets.0, s.truth_separator, s.truth_brackets.1, tr, &mut toks);
                        }
                        let kind = match (b, p) {
                            (Some(_), Some(_)) => Kind::Task,
                            (None, Some(_)) => Kind::Sentence,
                            _ => Kind::Term,
                        };
                        out.push((emit::join(&toks, " "), kind));
                    }
                }
            }
        }
    }
    out
}

pub fn replay_case(c: &J) -> Result<(), String> {
    let f = fmts::by_name(c["format"].as_str().unwrap_or("ascii"));
    if c["op"].as_str() == Some("classification_pair") {
        let expect = match c["expect"].as_str() { Some("Task") => Kind::Task, Some("Sentence") => Kind::Sentence, _ => Kind::Term };
        let rs = f.e.parse_multi([c["first"].as_str().unwrap_or(""), c["second"].as_str().unwrap_or("")]);
        if let Some(Ok(n)) = rs.get(1) {
            if kind_of(n) != expect {
                return Err(format!("the second input carries the items of a {expect:?} but is classified as {:?}", kind_of(n)));
            }
        }
        return Ok(());
    }
    if c["op"].as_str() == Some("classification_batch") {
        let items = item_inputs(&f);
        let mut batch: Vec<&(String, Kind)> = items.iter().collect();
        if c["reversed"].as_bool() == Some(true) {
            batch.reverse();
        }
        let kinds: Vec<Option<Kind>> = f.e.parse_multi(batch.iter().map(|(s, _)| s.as_str())).into_iter().map(|r| r.ok().map(|n| kind_of(&n))).collect();
        for (i, k) in kinds.iter().enumerate() {
            if let Some(k) = k {
                if *k != batch[i].1 {
                    return Err(format!("position {i}: {:?} carries the items of a {:?} but is classified as {k:?}", batch[i].0, batch[i].1));
                }
            }
        }
        return Ok(());
    }
    if c["op"].as_str() == Some("classification_items") {
        let k = match c["expect"].as_str() { Some("Task") => Kind::Task, Some("Sentence") => Kind::Sentence, _ => Kind::Term };
        return case_items(&f, c["input"].as_str().unwrap_or(""), k).map(|_| ());
    }
    match c["op"].as_str() {
        Some("conversions_lexical") => case_lex(&f, &ln_from_json(&c["value"])),
        _ => case_enum(&f, &V::from_json(&c["value"])),
    }
}

pub fn run(run: &Run) {
    run.rule(
        "every value of U_sent (tops x 4 punctuations x 9 stamps x 8 truths x 7 budget shapes incl. \
         none/empty) and every top term, enum and lexical, x 3 formats: classification by both \
         parsers, the sentence<->task cast laws, the 3x3 wrap/unwrap matrix, is_* predicates, \
         try_into_task_compatible, the value-level cast, and the printed form of cast_to_task(s); \
         plus 405 inputs per format assembled from every subset of {budget, punctuation, stamp, \
         truth} around 3 terms, classified by the stated rule in both parsers; distinct = distinct \
         values and inputs",
    );
    for f in fmts::all() {
        let mut vals: Vec<V> = u::tops(&f).into_iter().map(V::term).collect();
        vals.extend(u::u_sent(&f));
        run.add_distinct(vals.len() as u64);
        run.sample(json!({"format": f.name, "value": vals[vals.len() / 2].show()}));
        vals.par_iter().for_each(|v| {
            let _w = crate::watch::enter(&v.show());
            run.eval(1);
            let r = quiet_catch(AssertUnwindSafe(|| case_enum(&f, v)));
            let r = match r { Ok(x) => x, Err(p) => Err(format!("panic: {p}")) };
            if let Err(msg) = r {
                run.violation(&format!("[{}] {} : {}", f.name, v.show(), msg), json!({"op": "conversions_enum", "format": f.name, "value": v.to_json()}), &crate::props::c01::features(&f, v));
            }
        });
        let items = item_inputs(&f);
        let mut acc = 0u64;
        for (s, k) in &items {
            run.eval(1);
            match case_items(&f, s, *k) {
                Ok(n) => acc += n as u64,
                Err(msg) => run.violation(&format!("[{}] {}", f.name, msg), json!({"op": "classification_items", "format": f.name, "input": s, "expect": format!("{k:?}")}), &[]),
            }
        }
        // the same inputs as ONE batch through the multi-input entry point, in both orders (a term that carried a
        // budget is followed by a plain sentence, a rejected input by an accepted one ...): the kind of every
        // accepted position follows the stated rule
        for reversed in [false, true] {
            let mut batch: Vec<&(String, Kind)> = items.iter().collect();
            if reversed {
                batch.reverse();
            }
            let texts: Vec<&str> = batch.iter().map(|(s, _)| s.as_str()).collect();
            run.eval(texts.len() as u64);
            match quiet_catch(AssertUnwindSafe(|| f.e.parse_multi(texts.clone()).into_iter().map(|r| r.ok().map(|n| kind_of(&n))).collect::<Vec<_>>())) {
                Err(p) => run.violation(&format!("[{}] parse_multi over the {} item-subset inputs panics: {p}", f.name, texts.len()), json!({"op": "classification_batch", "format": f.name, "reversed": reversed}), &[]),
                Ok(kinds) => {
                    if kinds.len() != batch.len() {
                        run.violation(&format!("[{}] parse_multi returns {} results for {} inputs", f.name, kinds.len(), batch.len()), json!({"op": "classification_batch", "format": f.name, "reversed": reversed}), &[]);
                    }
                    for (i, k) in kinds.iter().enumerate() {
                        if let Some(k) = k {
                            if *k != batch[i].1 {
                                run.violation(
                                    &format!("[{}] position {i} of a parse_multi batch: {:?} carries the items of a {:?} but is classified as {k:?} (the input before it was {:?})", f.name, batch[i].0, batch[i].1, if i > 0 { batch[i - 1].0.as_str() } else { "" }),
                                    json!({"op": "classification_batch", "format": f.name, "reversed": reversed, "position": i}),
                                    &[],
                                );
                                break;
                            }
                        }
                    }
                }
            }
        }
        // every ordered PAIR of item-subset inputs as a two-input batch: whatever the first input leaves behind in the
        // reused parser (a budget read for a value that turned out to be a bare term, a truth read before a
        // rejection), the kind of an accepted second input follows the stated rule
        {
            use rayon::prelude::*;
            let n_pairs = (items.len() * items.len()) as u64;
            run.eval(n_pairs);
            run.count(&format!("item_subset_pair_batches_{}", f.name), n_pairs);
            let bad: Vec<(usize, usize, Kind)> = (0..items.len())
                .into_par_iter()
                .filter_map(|i| {
                    let _w = crate::watch::enter_with(|| format!("pair batches after {:?}", items[i].0));
                    for j in 0..items.len() {
                        let rs = match quiet_catch(AssertUnwindSafe(|| f.e.parse_multi([items[i].0.as_str(), items[j].0.as_str()]))) {
                            Ok(rs) => rs,
                            Err(_) => continue, // totality of the entry point is C04's business
                        };
                        if let Some(Ok(n)) = rs.get(1) {
                            let k = kind_of(n);
                            if k != items[j].1 {
                                return Some((i, j, k));
                            }
                        }
                    }
                    None
                })
                .collect();
            for (i, j, k) in bad.into_iter().take(20) {
                run.violation(
                    &format!("[{}] parse_multi([{:?}, {:?}]): the second input carries the items of a {:?} but is classified as {k:?}", f.name, items[i].0, items[j].0, items[j].1),
                    json!({"op": "classification_pair", "format": f.name, "first": items[i].0, "second": items[j].0, "expect": format!("{:?}", items[j].1)}),
                    &[],
                );
            }
        }
        run.count(&format!("item_subset_inputs_{}", f.name), items.len() as u64);
        run.count(&format!("item_subset_parses_accepted_{}", f.name), acc);
        run.add_distinct(items.len() as u64);
        let mut lv: Vec<LN> = lexu::tops(&f).into_iter().map(LN::Term).collect();
        lv.extend(lexu::u_sent(&f));
        run.add_distinct(lv.len() as u64);
        lv.par_iter().for_each(|x| {
            let _w = crate::watch::enter(&format!("{x:?}"));
            run.eval(1);
            let r = quiet_catch(AssertUnwindSafe(|| case_lex(&f, x)));
            let r = match r { Ok(x) => x, Err(p) => Err(format!("panic: {p}")) };
            if let Err(msg) = r {
                run.violation(&format!("[{}] {}", f.name, msg), json!({"op": "conversions_lexical", "format": f.name, "value": ln_to_json(x)}), &[]);
            }
        });
    }
}
