//! C16 - Typst rendering is total, whitespace-normalised and unambiguous.

use crate::env;
use crate::fmts;
use crate::model::*;
use crate::ops;
use crate::report::{quiet_catch, Run, Tier};
use crate::universe as u;
use narsese::api::FormatTo;
use narsese::conversion::string::typst_formatter::FormatterTypst;
use narsese::enum_narsese::{Budget, Narsese, Punctuation, Stamp, Truth};
use rayon::prelude::*;
use serde_json::{json, Value as J};
use std::collections::HashMap;
use std::panic::AssertUnwindSafe;
use std::sync::Mutex;

pub fn normalised(s: &str) -> Result<(), String> {
    if s != s.trim() {
        return Err(format!("rendering {s:?} has leading or trailing whitespace"));
    }
    let cs: Vec<char> = s.chars().collect();
    for w in cs.windows(2) {
        if w[0].is_whitespace() && w[1].is_whitespace() {
            return Err(format!("rendering {s:?} has two adjacent whitespace characters"));
        }
    }
    Ok(())
}

/// feature for KF-1: an image with a placeholder among its own components (any position)
pub fn features(v: &V) -> Vec<String> {
    if v.term.any(&|r| r.tag.shape() == Shape::Image && r.kids.iter().any(|k| k.tag == Tag::Placeholder)) {
        vec!["image-with-placeholder-component".to_string()]
    } else {
        vec![]
    }
}

/// the tokens of a rendering, sorted: what stays the same when unordered components (and the operands of symmetric
/// statements, which `==` treats as unordered) are printed in another order
pub fn token_bag(s: &str) -> String {
    let mut t: Vec<&str> = s.split_whitespace().collect();
    t.sort_unstable();
    t.join(" ")
}

/// the rendering of the trait route; the text of every public route must be normalised
fn render(n: &Narsese) -> Result<String, String> {
    let texts = ops::typst_routes(n)?;
    for s in &texts {
        normalised(s)?;
    }
    Ok(texts.into_iter().next().unwrap_or_default())
}

/// all distinct renderings (every route), each normalised
fn render_all(n: &Narsese) -> Result<Vec<String>, String> {
    let texts = ops::typst_routes(n)?;
    for s in &texts {
        normalised(s)?;
    }
    Ok(texts)
}

pub fn replay_case(c: &J) -> Result<(), String> {
    match c["op"].as_str() {
        Some("typst_collision") => {
            let a = V::from_json(&c["a"]);
            let b = V::from_json(&c["b"]);
            let (ra, rb) = (render(&a.build())?, render(&b.build())?);
            if a.canon() != b.canon() && ra == rb {
                return Err(format!("{} and {} both render as {ra:?}", a.show(), b.show()));
            }
            Ok(())
        }
        _ => {
            let v = V::from_json(&c["value"]);
            render(&v.build()).map(|_| ())
        }
    }
}

pub fn run(run: &Run) {
    run.rule(
        "every value of U_term and U_sent (as C01) plus stand-alone truth/budget/stamp/punctuation \
         values: render, check trimmed / no doubled whitespace; unordered families additionally \
         under every distinguishable iteration order; one map rendering -> canonical class over \
         the whole universe: a rendering shared by two classes is a collision; canonically equal \
         values must have equal rendering SETS; distinct = distinct canonical classes rendered",
    );
    let tier = run.tier;
    let f = fmts::ascii(); // names only; Typst rendering does not depend on a format
    // the Han name alphabet (a superset of the ASCII one: CJK names are printed raw inside the Typst
    // string literals, so multi-byte characters reach the whitespace post-processing) for terms AND
    // for the sentence / task item product
    let mut vals: Vec<V> = u::u_term(&fmts::han(), tier).into_iter().map(V::term).collect();
    vals.extend(u::huge_terms(4097).into_iter().filter(|r| r.size() > 1000 && !(r.tag == Tag::Product && r.kids.len() == 600)).map(V::term));
    vals.extend(u::u_sent(&fmts::han()));
    vals.extend(u::float_family());
    // one name per identifier code point: a renderer that tidies, escapes or normalises names must stay one-to-one
    vals.extend(u::name_code_points(&fmts::han(), tier).into_iter().map(|c| V::term(R::word(&u::cp_name(c)))));
    // rendering -> (class, example)
    let table: Mutex<HashMap<String, (CV, V)>> = Mutex::new(HashMap::new());
    let record = |s: String, v: &V| {
        let cv = v.canon();
        let mut g = table.lock().unwrap();
        match g.get(&s) {
            None => {
                g.insert(s, (cv, v.clone()));
            }
            Some((c0, v0)) => {
                if *c0 != cv {
                    let (v0, s2) = (v0.clone(), s.clone());
                    drop(g);
                    let mut fs = features(v);
                    fs.extend(features(&v0));
                    run.violation(
                        &format!("{} and {} are different values but both render as {s2:?}", v0.show(), v.show()),
                        json!({"op": "typst_collision", "a": v0.to_json(), "b": v.to_json(), "rendering": s2}),
                        &fs,
                    );
                }
            }
        }
    };
    vals.par_iter().for_each(|v| {
        let _w = crate::watch::enter(&v.show());
        run.eval(1);
        let n = match quiet_catch(AssertUnwindSafe(|| v.build())) {
            Ok(n) => n,
            Err(_) => return,
        };
        match render_all(&n) {
            Ok(texts) => {
                for s in texts {
                    record(s, v);
                }
            }
            Err(e) => run.violation(&format!("{} : {e}", v.show()), json!({"op": "typst_render", "value": v.to_json()}), &features(v)),
        }
    });
    // unordered families under every iteration order; rendering sets per canonical class
    // atoms with pairwise distinct names: `Term`'s hash of an atom is the hash of its name, so two
    // atoms of different kinds with the same name always land in insertion order and the key
    // cannot swap them; with distinct names every one of the k! orders is reachable and the
    // rendering SETS of two recipes of the same value are comparable
    let pool = vec![R::word("a"), R::word("x-y"), R::atom(Tag::IVar, "b1"), R::atom(Tag::DVar, "c"), R::placeholder()];
    let mut fam: Vec<R> = vec![];
    for &tag in COMPOUND_TAGS.iter().filter(|t| t.shape() == Shape::Set) {
        for s in u::sequences(&pool[..4], 1, 3) {
            fam.push(R::node(tag, s));
        }
        let inner = [R::node(tag, vec![pool[0].clone(), pool[2].clone()]), R::node(Tag::SetInt, vec![pool[2].clone(), pool[0].clone(), pool[1].clone()])];
        for a in &inner {
            for b in &inner {
                fam.push(R::node(tag, vec![a.clone(), b.clone(), pool[3].clone()]));
                fam.push(R::node(tag, vec![pool[3].clone(), b.clone(), a.clone()]));
            }
        }
    }
    let max_keys = tier.pick(64, 160);
    // per canonical class, per recipe: iteration order actually realised (the built term read back in its
    // stored order) -> rendering. A rendering is a function of the value and the order its unordered
    // components are iterated in, so two recipes of one value must render alike under every order both realise.
    // (Which orders a recipe can realise within the key budget depends on the hash function and on hashbrown's
    // probing, i.e. on insertion order - demanding equal rendering SETS would demand more than the property does.)
    let sets: Mutex<HashMap<R, HashMap<R, std::collections::BTreeMap<String, String>>>> = Mutex::new(HashMap::new());
    fam.par_iter().for_each(|r| {
        let _w = crate::watch::enter(&r.show());
        let v = V::term(r.clone());
        let mut mine = std::collections::BTreeMap::new();
        let make = || r.build();
        env::explore(&make, &|t| R::of_term(t), max_keys, &mut |_script, t| {
            run.eval(1);
            let order = R::of_term(&t).show();
            match render(&Narsese::Term(t)) {
                Ok(s) => {
                    mine.insert(order, s.clone());
                    record(s, &v);
                }
                Err(e) => run.violation(&format!("{} : {e}", v.show()), json!({"op": "typst_render", "value": v.to_json()}), &[]),
            }
        });
        sets.lock().unwrap().entry(r.canon()).or_default().insert(r.clone(), mine);
    });
    // "equal values render identically up to the order of unordered components": all renderings of one canonical class -
    // every recipe, every iteration order realised - must consist of the same tokens. (Comparing texts under a common
    // stored order would still demand too much: a renderer may remember the text it printed for an equal value and print
    // that again, in whatever order it had.)
    let g = sets.lock().unwrap();
    let mut compared = 0u64;
    for (class, per_recipe) in g.iter() {
        let mut first: Option<(String, String, String)> = None; // (bag, recipe, text)
        for (r, texts) in per_recipe.iter() {
            for text in texts.values() {
                let bag = token_bag(text);
                match &first {
                    None => first = Some((bag, r.show(), text.clone())),
                    Some((b0, r0, t0)) => {
                        compared += 1;
                        run.eval(1);
                        if *b0 != bag {
                            run.violation(
                                &format!("{} and {} are the same value ({}) but do not render to the same tokens: {t0:?} vs {text:?}", r0, r.show(), class.show()),
                                json!({"op": "typst_render", "value": V::term(r.clone()).to_json()}),
                                &[],
                            );
                        }
                    }
                }
            }
        }
    }
    run.count("renderings_of_equal_values_compared_as_token_bags", compared);
    run.count("unordered_recipes_under_all_orders", fam.len() as u64);
    // stand-alone items
    let mut items: Vec<(String, String)> = vec![];
    let t = FormatterTypst;
    for tr in u::truths() {
        let v = V { term: R::word("a"), punct: Some(P::Judgement), stamp: St::Eternal, truth: tr.clone(), budget: None };
        let x: Truth = v.build_truth();
        items.push((format!("truth {tr:?}"), quiet_catch(AssertUnwindSafe(|| x.format_to(&t))).unwrap_or_else(|p| format!("PANIC {p}"))));
    }
    for b in u::budgets().into_iter().flatten() {
        let x: Budget = V::build_budget(&b);
        items.push((format!("budget {b:?}"), quiet_catch(AssertUnwindSafe(|| x.format_to(&t))).unwrap_or_else(|p| format!("PANIC {p}"))));
    }
    for st in u::STAMPS {
        let v = V { term: R::word("a"), punct: Some(P::Judgement), stamp: st, truth: vec![], budget: None };
        let x: Stamp = v.build_stamp();
        items.push((format!("stamp {st:?}"), quiet_catch(AssertUnwindSafe(|| x.format_to(&t))).unwrap_or_else(|p| format!("PANIC {p}"))));
    }
    for p in [Punctuation::Judgement, Punctuation::Goal, Punctuation::Question, Punctuation::Quest] {
        items.push((format!("punctuation {p:?}"), quiet_catch(AssertUnwindSafe(|| p.format_to(&t))).unwrap_or_else(|pp| format!("PANIC {pp}"))));
    }
    let mut seen: HashMap<String, String> = HashMap::new();
    for (what, s) in &items {
        run.eval(1);
        if s.starts_with("PANIC") {
            run.violation(&format!("rendering {what} panics: {s}"), json!({"op": "typst_item", "item": what}), &[]);
            continue;
        }
        if let Err(e) = normalised(s) {
            run.violation(&format!("{what}: {e}"), json!({"op": "typst_item", "item": what}), &[]);
        }
        // items of the same kind must not collide (an eternal stamp and an empty truth render as "")
        let kind = what.split(' ').next().unwrap().to_string();
        if let Some(prev) = seen.insert(format!("{kind}:{s}"), what.clone()) {
            if &prev != what {
                run.violation(&format!("{prev} and {what} both render as {s:?}"), json!({"op": "typst_item", "item": what}), &[]);
            }
        }
    }
    let classes = table.lock().unwrap().len();
    run.add_distinct(classes as u64);
    run.sample(json!({"value": vals[vals.len() - 3].show(), "typst": render(&vals[vals.len() - 3].build()).unwrap_or_default()}));
    let _ = Tier::Quick;
}
