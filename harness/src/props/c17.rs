//! C17 - term mutators change exactly what they say, or fail and change nothing.
//!
//! E4: stateright BFS where every transition applies one real mutator call to the real term
//! (rebuilt by replaying the history on a fresh instance) and, in lockstep, the reference model
//! below to the canonical form; the invariant compares outcome and post-state.

use crate::model::*;
use crate::report::{quiet_catch, Run};
use narsese::enum_narsese::Term;
use serde_json::{json, Value as J};
use stateright::{Checker, Model, Property};
use std::hash::{Hash, Hasher};
use std::panic::AssertUnwindSafe;
use std::sync::atomic::{AtomicU64, Ordering};
use std::sync::Arc;

pub const NAMES: [&str; 33] = [
    "a", "", "0", "7", "+5", "-1", "0007", "18446744073709551615", "18446744073709551616", " 5", "5 ", "0x1",
    "٣", "x-y", "+", "+-5",
    // spellings longer than the digit count of usize::MAX whose VALUE still fits (or not)
    "+18446744073709551615", "000000000000000000000000000001", "018446744073709551615", "+018446744073709551616", "1_000",
    // more sign shapes
    "++5", "5+", "+ 5", "++", "-0",
    // digits of other scripts / classes (full-width, Bengali, superscript, Roman numeral), alone and mixed with ASCII digits
    "１２", "1２", "+１", "৭", "²", "Ⅷ", "1²",
];

pub fn push_lists() -> Vec<Vec<R>> {
    let a = R::word("A");
    let b = R::word("B");
    vec![
        vec![],
        vec![a.clone()],
        vec![a.clone(), b.clone()],
        vec![a.clone(), a.clone()],
        vec![R::word("k0")], // an element the initial terms already contain
        vec![R::placeholder()],
        vec![R::node(Tag::SetExt, vec![b.clone(), a.clone()])],
        vec![a.clone(), b.clone(), R::word("C"), R::word("D")], // more elements than any initial term
    ]
}

#[derive(Clone, Copy, Debug, PartialEq, Eq, Hash)]
pub enum Act {
    SetName(u8),
    Push(u8),
}

/// initial terms: one per constructor (+ images at index 0 / 1 / n)
pub fn inits() -> Vec<R> {
    let k0 = R::word("k0");
    let k1 = R::atom(Tag::DVar, "k1");
    let mut v = vec![
        R::word("w"),
        R::placeholder(),
        R::atom(Tag::IVar, "i"),
        R::atom(Tag::DVar, "d"),
        R::atom(Tag::QVar, "q"),
        R::interval(42),
        R::atom(Tag::Operator, "op"),
    ];
    for &tag in COMPOUND_TAGS.iter().chain(STATEMENT_TAGS.iter()) {
        match tag.shape() {
            Shape::Set | Shape::Seq => {
                v.push(R::node(tag, vec![k0.clone(), k1.clone()]));
                v.push(R::node(tag, vec![k0.clone()])); // fewer elements than most push lists
            }
            Shape::Image => {
                for idx in 0..=2 {
                    v.push(R::image(tag, idx, vec![k0.clone(), k1.clone()]));
                }
                v.push(R::image(tag, 0, vec![]));
            }
            Shape::Unary => v.push(R::node(tag, vec![k0.clone()])),
            _ => v.push(R::pair(tag, k0.clone(), k1.clone())),
        }
    }
    v
}

/// Independent reading of "an unsigned decimal integer that fits the machine word (an optional
/// leading '+' is accepted)".
pub fn model_parse_usize(s: &str) -> Option<usize> {
    let digits = s.strip_prefix('+').unwrap_or(s);
    if digits.is_empty() || !digits.bytes().all(|b| b.is_ascii_digit()) {
        return None;
    }
    let mut v: usize = 0;
    for b in digits.bytes() {
        v = v.checked_mul(10)?.checked_add((b - b'0') as usize)?;
    }
    Some(v)
}

/// reference model on canonical forms: Ok(new state) or Err (state unchanged)
pub fn model_apply(r: &R, a: Act) -> Result<R, ()> {
    match a {
        Act::SetName(i) => {
            let n = NAMES[i as usize];
            match r.tag {
                Tag::Word | Tag::IVar | Tag::DVar | Tag::QVar | Tag::Operator => Ok(R { name: n.to_string(), ..r.clone() }),
                Tag::Placeholder => Ok(r.clone()),
                Tag::Interval => model_parse_usize(n).map(|v| R { idx: v, ..r.clone() }).ok_or(()),
                _ => Err(()),
            }
        }
        Act::Push(i) => {
            let cs = &push_lists()[i as usize];
            match r.tag.shape() {
                Shape::Seq | Shape::Image => {
                    let mut x = r.clone();
                    x.kids.extend(cs.iter().map(|c| c.canon()));
                    Ok(x)
                }
                Shape::Set => {
                    let mut x = r.clone();
                    x.kids.extend(cs.iter().map(|c| c.canon()));
                    Ok(x.canon())
                }
                _ => Err(()),
            }
        }
    }
}

pub fn model_name(r: &R) -> Option<String> {
    match r.tag {
        Tag::Word | Tag::IVar | Tag::DVar | Tag::QVar | Tag::Operator => Some(r.name.clone()),
        Tag::Placeholder => Some(String::new()),
        Tag::Interval => Some(r.idx.to_string()),
        _ => None,
    }
}

/// apply one action to the real term; Ok(()) / Err(()) as the library reports
pub fn real_apply(t: &mut Term, a: Act) -> Result<(), ()> {
    match a {
        Act::SetName(i) => t.set_atom_name(NAMES[i as usize]).map_err(|_| ()),
        Act::Push(i) => t.push_components(push_lists()[i as usize].iter().map(|c| c.build())).map_err(|_| ()),
    }
}

/// replay a whole history on a fresh real term and on the model; report the first disagreement
pub fn replay_history(init: &R, hist: &[Act]) -> Result<(Term, R), String> {
    let mut t = init.build();
    let mut m = init.canon();
    for (k, a) in hist.iter().enumerate() {
        let before = R::canon_of_term(&t);
        let real = real_apply(&mut t, *a);
        let after = R::canon_of_term(&t);
        let expect = model_apply(&m, *a);
        let what = || format!("start {} ; history {:?} ; step {k} = {a:?} ({})", init.show(), hist, describe(*a));
        match (&real, &expect) {
            (Ok(()), Ok(m2)) => {
                if &after != m2 {
                    return Err(format!("{} : succeeded, term is now {} but should be {}", what(), after.show(), m2.show()));
                }
                let held = R::of_term(&t).kids.len();
                if held != m2.kids.len() {
                    return Err(format!("{} : succeeded, but the term now holds {held} components where the value {} has {} (an equal component was stored twice)", what(), m2.show(), m2.kids.len()));
                }
                m = m2.clone();
            }
            (Err(()), Err(())) => {
                if after != before {
                    return Err(format!("{} : failed but changed the term from {} to {}", what(), before.show(), after.show()));
                }
            }
            (Ok(()), Err(())) => return Err(format!("{} : succeeded (term now {}), should fail and leave {}", what(), after.show(), before.show())),
            (Err(()), Ok(m2)) => return Err(format!("{} : failed, should succeed and give {}", what(), m2.show())),
        }
        let name = t.get_atom_name();
        if name != model_name(&m) {
            return Err(format!("{} : get_atom_name() = {:?}, expected {:?}", what(), name, model_name(&m)));
        }
        // the unchecked accessor agrees wherever the checked one answers
        if name.is_some() {
            let t2 = t.clone();
            let un = quiet_catch(AssertUnwindSafe(move || t2.get_atom_name_unchecked()));
            if un.as_ref().ok() != name.as_ref() {
                return Err(format!("{} : get_atom_name_unchecked() = {:?} but get_atom_name() = {:?}", what(), un, name));
            }
        }
    }
    Ok((t, m))
}

fn describe(a: Act) -> String {
    match a {
        Act::SetName(i) => format!("set_atom_name({:?})", NAMES[i as usize]),
        Act::Push(i) => format!("push_components([{}])", push_lists()[i as usize].iter().map(|r| r.show()).collect::<Vec<_>>().join(", ")),
    }
}

#[derive(Clone, Debug)]
pub struct S {
    pub init: usize,
    pub hist: Vec<Act>,
    pub canon: R,
    pub bad: Option<String>,
}
impl PartialEq for S {
    fn eq(&self, o: &S) -> bool {
        self.canon == o.canon && self.bad == o.bad
    }
}
impl Eq for S {}
impl Hash for S {
    fn hash<H: Hasher>(&self, h: &mut H) {
        self.canon.hash(h);
        self.bad.hash(h);
    }
}

pub struct M {
    pub inits: Vec<R>,
    pub transitions: Arc<AtomicU64>,
    pub exhaust: bool,
}

impl Model for M {
    type State = S;
    type Action = Act;
    fn init_states(&self) -> Vec<S> {
        self.inits.iter().enumerate().map(|(i, r)| S { init: i, hist: vec![], canon: r.canon(), bad: None }).collect()
    }
    fn actions(&self, s: &S, out: &mut Vec<Act>) {
        if s.bad.is_some() {
            return;
        }
        for i in 0..NAMES.len() as u8 {
            out.push(Act::SetName(i));
        }
        for i in 0..push_lists().len() as u8 {
            out.push(Act::Push(i));
        }
    }
    fn next_state(&self, last: &S, a: Act) -> Option<S> {
        self.transitions.fetch_add(1, Ordering::Relaxed);
        let mut hist = last.hist.clone();
        hist.push(a);
        let init = &self.inits[last.init];
        let res = quiet_catch(AssertUnwindSafe(|| replay_history(init, &hist)));
        Some(match res {
            Ok(Ok((_, m))) => S { init: last.init, hist, canon: m, bad: None },
            Ok(Err(msg)) => S { init: last.init, hist, canon: last.canon.clone(), bad: Some(msg) },
            Err(p) => S { init: last.init, hist, canon: last.canon.clone(), bad: Some(format!("panic: {p}")) },
        })
    }
    fn properties(&self) -> Vec<Property<Self>> {
        let mut v = vec![Property::always("mutators agree with the reference model", |_, s: &S| s.bad.is_none())];
        if self.exhaust {
            v.push(Property::sometimes("(exhaust the bounded state space)", |_, _| false));
        }
        v
    }
}

fn act_to_json(a: &Act) -> J {
    match a {
        Act::SetName(i) => json!({"set_name": i}),
        Act::Push(i) => json!({"push": i}),
    }
}
fn act_from_json(j: &J) -> Act {
    if let Some(i) = j["set_name"].as_u64() {
        Act::SetName(i as u8)
    } else {
        Act::Push(j["push"].as_u64().unwrap_or(0) as u8)
    }
}

pub fn replay_case(c: &J) -> Result<(), String> {
    if c["op"].as_str() == Some("set_name_once") {
        let init = R::from_json(&c["init"]);
        let n = c["name"].as_str().unwrap_or("");
        let mut t = init.build();
        let real = t.set_atom_name(n).map_err(|_| ());
        let after = R::canon_of_term(&t);
        let expect: Result<R, ()> = match init.tag {
            Tag::Word | Tag::IVar | Tag::DVar | Tag::QVar | Tag::Operator => Ok(R { name: n.to_string(), ..init.canon() }),
            Tag::Placeholder => Ok(init.canon()),
            Tag::Interval => model_parse_usize(n).map(|v| R { idx: v, ..init.canon() }).ok_or(()),
            _ => Err(()),
        };
        return match (real, expect) {
            (Ok(()), Ok(m)) if after == m => Ok(()),
            (Err(()), Err(())) if after == init.canon() => Ok(()),
            _ => Err(format!("set_atom_name({n:?}) on {} disagrees with the reference model (term now {})", init.show(), after.show())),
        };
    }
    if c["op"].as_str() == Some("push_once") {
        let init = R::from_json(&c["init"]);
        let cs: Vec<R> = c["list"].as_array().map(|a| a.iter().map(R::from_json).collect()).unwrap_or_default();
        let mut t = init.build();
        let key = c["key"].as_u64().unwrap_or(0);
        let built: Vec<Term> = narsese::verif_hooks::with_seed_script(&vec![key; 64], || cs.iter().map(|c| c.build()).collect()).0;
        let real = match c["supply"].as_u64() {
            Some(1) => t.push_components(built.into_iter().filter(|_| true)).map_err(|_| ()),
            Some(2) => {
                let mut it = built.into_iter();
                t.push_components(std::iter::from_fn(move || it.next())).map_err(|_| ())
            }
            _ => t.push_components(built).map_err(|_| ()),
        };
        let after = R::canon_of_term(&t);
        let expect: Result<R, ()> = match init.tag.shape() {
            Shape::Seq | Shape::Image | Shape::Set => {
                let mut x = init.canon();
                x.kids.extend(cs.iter().map(|c| c.canon()));
                Ok(x.canon())
            }
            _ => Err(()),
        };
        let held = R::of_term(&t).kids.len();
        return match (real, expect) {
            (Ok(()), Ok(m)) if after == m && held == m.kids.len() => Ok(()),
            (Err(()), Err(())) if after == init.canon() => Ok(()),
            _ => Err(format!("push_components on {} disagrees with the reference model (term now {}, holding {held} components)", init.show(), after.show())),
        };
    }
    let init = R::from_json(&c["init"]);
    let hist: Vec<Act> = c["history"].as_array().map(|a| a.iter().map(act_from_json).collect()).unwrap_or_default();
    replay_history(&init, &hist).map(|_| ())
}

pub fn run(run: &Run) {
    run.rule(
        "initial states: one term per constructor (images at index 0/1/n and empty); actions: \
         set_atom_name over 33 strings (empty, signed, leading zeros, usize::MAX, overflow, padded, \
         hex, non-ASCII digit, dashed) and push_components over 8 lists (empty, 1, 2, duplicate, \
         existing element, placeholder, compound); one-step sweeps: old name x new name over 22 related names x 5 kinds; push of [x], [x,A], [A,x], [x,x] for a representative x of every constructor (and the target itself) onto every initial term; stateright BFS to depth 3 (5 thorough) over the \
         real term, deduplicated on its canonical form; every transition compared with the \
         reference model (outcome, post-state, get_atom_name; unchanged on Err); distinct = unique \
         canonical states reached",
    );
    run.assume("merging histories with equal canonical form is sound: the mutators and accessors only observe the term value (default hash keys under the hook)");
    let depth = run.tier.pick(3usize, 5usize);
    run.bound("bfs_depth", json!(depth));
    let inits = inits();
    run.bound("initial_states", json!(inits.len()));
    run.bound("actions", json!(NAMES.len() + push_lists().len()));
    let mut counts = vec![];
    for round in 0..2 {
        let transitions = Arc::new(AtomicU64::new(0));
        let m = M { inits: inits.clone(), transitions: transitions.clone(), exhaust: true };
        let checker = m.checker().threads(if round == 0 { 1 } else { 8 }).target_max_depth(depth + 1).spawn_bfs().join();
        counts.push(checker.unique_state_count());
        if round == 0 {
            run.add_states(checker.unique_state_count() as u64, transitions.load(Ordering::Relaxed));
            run.add_traces(transitions.load(Ordering::Relaxed));
            run.eval(transitions.load(Ordering::Relaxed));
            run.add_distinct(checker.unique_state_count() as u64);
            run.count("max_depth_reached", checker.max_depth() as u64);
        }
    }
    if counts[0] != counts[1] {
        run.cap(&format!("two runs of the search disagree on the number of unique states: {counts:?}"));
    }
    // shallowest counter-example, if any
    let m1 = M { inits: inits.clone(), transitions: Arc::new(AtomicU64::new(0)), exhaust: false };
    let first = m1.checker().threads(1).target_max_depth(depth + 1).spawn_bfs().join();
    if let Some(path) = first.discovery("mutators agree with the reference model") {
        let last = path.last_state().clone();
        run.violation(
            &last.bad.clone().unwrap_or_default(),
            json!({"op": "mutator_history", "init": inits[last.init].to_json(), "history": last.hist.iter().map(act_to_json).collect::<Vec<_>>(),
                   "readable": last.hist.iter().map(|a| describe(*a)).collect::<Vec<_>>()}),
            &[],
        );
    }
    // wide but shallow: EVERY string of length <= 4 over {+ - 0 7 9 space a _ full-width-3} as a new name, on every
    // initial term (one step), against the same reference model
    let alpha = ['+', '-', '0', '7', '9', ' ', 'a', '_', '３'];
    let mut names: Vec<String> = vec![String::new()];
    let mut cur: Vec<String> = vec![String::new()];
    for _ in 0..4 {
        let mut next = vec![];
        for s in &cur {
            for c in alpha {
                let mut t = s.clone();
                t.push(c);
                next.push(t);
            }
        }
        names.extend(next.iter().cloned());
        cur = next;
    }
    // names built from the vocabularies: every keyword of every format (atom prefixes, connecters, copulas,
    // brackets, punctuation, stamp and number brackets) as a whole name, in front of, behind and around a
    // plain name, and doubled - a rename stores whatever it is given, verbatim
    for f in crate::fmts::all() {
        for k in crate::strings::keywords(&f) {
            for n in [k.clone(), format!("{k}go"), format!("go{k}"), format!("{k}{k}"), format!("{k}g{k}"), format!("{k}7")] {
                if !names.contains(&n) {
                    names.push(n);
                }
            }
        }
    }
    // long names: 63..300 characters in 1- and 3-byte characters (a message or buffer that is cut at a byte offset)
    for n in crate::universe::class_names().into_iter().filter(|n| n.chars().count() >= 60) {
        if !names.contains(&n) {
            names.push(n);
        }
    }
    for k in [85usize, 86, 128, 171, 341] {
        names.push(format!("xy{}", "数".repeat(k)));
        names.push(format!("x{}", "é".repeat(k)));
    }
    run.bound("one_step_names", json!(names.len()));
    let mut one_step = 0u64;
    for init in &inits {
        for n in &names {
            one_step += 1;
            let mut t = init.build();
            let before = R::canon_of_term(&t);
            let real = quiet_catch(AssertUnwindSafe(|| t.set_atom_name(n).map_err(|_| ())));
            let after = R::canon_of_term(&t);
            let expect: Result<R, ()> = match init.tag {
                Tag::Word | Tag::IVar | Tag::DVar | Tag::QVar | Tag::Operator => Ok(R { name: n.clone(), ..init.canon() }),
                Tag::Placeholder => Ok(init.canon()),
                Tag::Interval => model_parse_usize(n).map(|v| R { idx: v, ..init.canon() }).ok_or(()),
                _ => Err(()),
            };
            let bad = match (&real, &expect) {
                (Ok(Ok(())), Ok(m)) => if &after != m { Some(format!("succeeded, term is {} but should be {}", after.show(), m.show())) } else { None },
                (Ok(Err(())), Err(())) => if after != before { Some("failed but changed the term".to_string()) } else { None },
                (Ok(Ok(())), Err(())) => Some(format!("succeeded (term now {}), should fail", after.show())),
                (Ok(Err(())), Ok(m)) => Some(format!("failed, should succeed and give {}", m.show())),
                (Err(p), _) => Some(format!("panics: {p}")),
            };
            if let Some(b) = bad {
                run.violation(&format!("start {} ; set_atom_name({n:?}) : {b}", init.show()), json!({"op": "set_name_once", "init": init.to_json(), "name": n}), &[]);
            }
        }
    }
    run.eval(one_step);
    run.count("one_step_set_atom_name_cases", one_step);
    // old name x new name: every pair over a family of names related by case, prefix, suffix,
    // permutation, padding and length, on each of the five named atom kinds
    let rel = ["ab", "aB", "Ab", "AB", "ab ", " ab", "abc", "a", "b", "ba", "ab-", "a-b", "é", "É", "e\u{301}", "ab\u{e0101}", "bird", "Bird", "BIRD", "0", "00", ""];
    let mut rel_cases = 0u64;
    for tag in [Tag::Word, Tag::IVar, Tag::DVar, Tag::QVar, Tag::Operator] {
        for n1 in rel {
            if n1.is_empty() {
                continue;
            }
            for n2 in rel {
                rel_cases += 1;
                let init = R::atom(tag, n1);
                let mut t = init.build();
                let real = quiet_catch(AssertUnwindSafe(|| t.set_atom_name(n2).map_err(|_| ())));
                let after = R::canon_of_term(&t);
                let want = R { name: n2.to_string(), ..init.canon() };
                let name = t.get_atom_name();
                let bad = match real {
                    Ok(Ok(())) => if after != want { Some(format!("succeeded, term is {} but should be {}", after.show(), want.show())) } else if name.as_deref() != Some(n2) { Some(format!("get_atom_name() = {name:?}, expected {n2:?}")) } else { None },
                    Ok(Err(())) => Some("failed, should succeed".to_string()),
                    Err(p) => Some(format!("panics: {p}")),
                };
                if let Some(b) = bad {
                    run.violation(&format!("start {} ; set_atom_name({n2:?}) : {b}", init.show()), json!({"op": "set_name_once", "init": init.to_json(), "name": n2}), &[]);
                }
            }
        }
    }
    run.eval(rel_cases);
    run.count("old_name_new_name_pairs", rel_cases);
    // wide one-step push: onto every initial term, every list [x], [x, A], [A, x], [x, x] where x
    // ranges over one representative of EVERY constructor (so: a compound of the target's own
    // constructor, of a sibling constructor, a statement, each atom kind), against the model
    let reps = crate::universe::reps(&crate::fmts::ascii());
    let a = R::word("A");
    let mut wide_lists: Vec<Vec<R>> = vec![];
    for x in &reps {
        wide_lists.push(vec![x.clone()]);
        wide_lists.push(vec![x.clone(), a.clone()]);
        wide_lists.push(vec![a.clone(), x.clone()]);
        wide_lists.push(vec![x.clone(), x.clone()]);
    }
    // targets that already hold a nested unordered compound / symmetric statement, and pushes of
    // the SAME value built the other way round (reversed insertion order, swapped operands):
    // uniting must recognise it
    let mut mirror_inits: Vec<(R, Vec<Vec<R>>)> = vec![];
    {
        let (x, y, z) = (R::word("ma"), R::atom(Tag::DVar, "mb"), R::word("mc"));
        let set_tags: Vec<Tag> = COMPOUND_TAGS.iter().copied().filter(|t| t.shape() == Shape::Set).collect();
        let mut mirrors: Vec<(R, R)> = vec![];
        for &u in &set_tags {
            mirrors.push((R::node(u, vec![x.clone(), y.clone(), z.clone()]), R::node(u, vec![z.clone(), y.clone(), x.clone()])));
        }
        for s in [Tag::Sim, Tag::Equiv, Tag::EquivConc] {
            mirrors.push((R::pair(s, x.clone(), y.clone()), R::pair(s, y.clone(), x.clone())));
        }
        for &t in &set_tags {
            for (m1, m2) in &mirrors {
                let init = R::node(t, vec![m1.clone(), R::word("k0")]);
                mirror_inits.push((init, vec![vec![m2.clone()], vec![m2.clone(), a.clone()], vec![m1.clone()], vec![m2.clone(), m1.clone()]]));
            }
        }
    }
    // and a compound of the target's constructor holding the target's own components
    let mut push_cases = 0u64;
    let mut targets: Vec<(R, Vec<Vec<R>>)> = vec![];
    for init in &inits {
        let mut lists = wide_lists.clone();
        if !init.tag.is_atom() {
            lists.push(vec![init.clone()]);
            lists.push(vec![init.clone(), a.clone()]);
            lists.push(vec![R { kids: vec![R::word("C"), R::word("D")], ..init.clone() }, a.clone()]);
        }
        targets.push((init.clone(), lists));
    }
    targets.extend(mirror_inits);
    // the pushed components are built under each of KEYS hash keys (the target under key 0), so
    // that an equal nested set arrives with a different iteration order than the one already held
    const KEYS: u64 = 6;
    run.bound("push_component_hash_keys", json!(KEYS));
    for (init, lists) in &targets {
        for (cs, key) in lists.iter().flat_map(|cs| (0..KEYS).map(move |k| (cs, k))) {
            // only lists that hold an unordered compound can look different under another key
            if key > 0 && !cs.iter().any(|c| c.any(&|x| x.tag.shape() == Shape::Set && x.kids.len() > 1)) {
                continue;
            }
            push_cases += 1;
            let mut t = init.build();
            let before = R::canon_of_term(&t);
            let built: Vec<Term> = narsese::verif_hooks::with_seed_script(&vec![key; 64], || cs.iter().map(|c| c.build()).collect()).0;
            // the same list supplied through iterators of other shapes (size_hint (0, Some n),
            // (0, None)) must give the same outcome and post-state as the Vec
            for mode in 1..4 {
                let mut t2 = init.build();
                let b2 = built.clone();
                let r2 = quiet_catch(AssertUnwindSafe(|| match mode {
                    1 => t2.push_components(b2.into_iter().filter(|_| true)).map_err(|_| ()),
                    3 => {
                        // a lazy iterator whose every element is produced by a call into the library (a clone and an
                        // ASCII format + parse round trip of the component): mutators must be re-entrant
                        let fa = crate::fmts::ascii();
                        t2.push_components(b2.into_iter().map(move |c| {
                            let text = fa.e.format_term(&c);
                            match fa.e.parse::<narsese::enum_narsese::Narsese>(&text).ok().and_then(|n| n.try_into_term().ok()) {
                                Some(p) if R::canon_of_term(&p) == R::canon_of_term(&c) => p,
                                _ => c,
                            }
                        }))
                        .map_err(|_| ())
                    }
                    _ => {
                        let mut it = b2.into_iter();
                        t2.push_components(std::iter::from_fn(move || it.next())).map_err(|_| ())
                    }
                }));
                let mut t1 = init.build();
                let b1 = built.clone();
                let r1 = quiet_catch(AssertUnwindSafe(|| t1.push_components(b1).map_err(|_| ())));
                push_cases += 1;
                if r1 != r2 || R::canon_of_term(&t1) != R::canon_of_term(&t2) {
                    let shown: Vec<String> = cs.iter().map(|c| c.show()).collect();
                    run.violation(
                        &format!("start {} ; push_components({shown:?}) supplied through a {} iterator gives {:?} / {} but through a Vec gives {:?} / {}", init.show(), if mode == 1 { "filter" } else if mode == 3 { "lazily re-parsing map" } else { "from_fn" }, r2, R::canon_of_term(&t2).show(), r1, R::canon_of_term(&t1).show()),
                        json!({"op": "push_once", "init": init.to_json(), "list": cs.iter().map(|c| c.to_json()).collect::<Vec<_>>(), "supply": mode, "key": key}),
                        &[],
                    );
                }
            }
            let real = quiet_catch(AssertUnwindSafe(|| t.push_components(built.into_iter()).map_err(|_| ())));
            let after = R::canon_of_term(&t);
            let expect: Result<R, ()> = match init.tag.shape() {
                Shape::Seq | Shape::Image => {
                    let mut x = init.canon();
                    x.kids.extend(cs.iter().map(|c| c.canon()));
                    Ok(x)
                }
                Shape::Set => {
                    let mut x = init.canon();
                    x.kids.extend(cs.iter().map(|c| c.canon()));
                    Ok(x.canon())
                }
                _ => Err(()),
            };
            let held = R::of_term(&t).kids.len();
            let bad = match (&real, &expect) {
                (Ok(Ok(())), Ok(m)) => if &after != m { Some(format!("succeeded, term is {} but should be {}", after.show(), m.show())) } else if held != m.kids.len() { Some(format!("succeeded, but the term now holds {held} components where the united value {} has {} (an equal component was stored twice)", m.show(), m.kids.len())) } else { None },
                (Ok(Err(())), Err(())) => if after != before { Some("failed but changed the term".to_string()) } else { None },
                (Ok(Ok(())), Err(())) => Some(format!("succeeded (term now {}), should fail", after.show())),
                (Ok(Err(())), Ok(m)) => Some(format!("failed, should succeed and give {}", m.show())),
                (Err(p), _) => Some(format!("panics: {p}")),
            };
            if let Some(b) = bad {
                let shown: Vec<String> = cs.iter().map(|c| c.show()).collect();
                run.violation(&format!("start {} ; push_components({shown:?}) : {b}", init.show()), json!({"op": "push_once", "init": init.to_json(), "list": cs.iter().map(|c| c.to_json()).collect::<Vec<_>>(), "key": key}), &[]);
            }
        }
    }
    run.eval(push_cases);
    run.count("one_step_push_cases", push_cases);
    run.sample(json!({"init": inits[9].show(), "history": [describe(Act::Push(2)), describe(Act::SetName(0)), describe(Act::Push(4))]}));
}
