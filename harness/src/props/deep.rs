//! Deep nesting (E1 extension): towers 65 .. 4098 levels deep, run on threads with a 1 GiB stack.
//!
//! The properties say "at every nesting depth" / "any nesting"; the universes of the checks stop at 64 levels
//! because their values are evaluated on ordinary worker stacks. A recursion guard ("stop at 128 levels, like
//! serde_json", "hash only the first 512 levels") is a realistic change that is invisible below its limit, so
//! this module adds, for the checks whose operations are linear in the depth on the pinned tree, one tower per
//! nesting position and per depth next to the powers of two up to 4096 - and for each of them the property's
//! own oracle (the very `case` functions of the check) plus the relations that need a second value: a twin that
//! differs only in the innermost leaf, and a tower one level taller.
//!
//! A case is identified by (maker, depth); replay files carry that recipe, not the value (a JSON value nested
//! thousands of levels cannot be read back by serde_json).

use crate::fmts::{self, F};
use crate::model::*;
use crate::props::{c01, c02, c03, c07, c11, c12, c14, c16};
use crate::report::{quiet_catch, Run, Tier};
use crate::{emit, ops};
use narsese::enum_narsese::{Narsese, Term};
use serde_json::{json, Value as J};
use std::panic::AssertUnwindSafe;

pub const STACK: usize = 1 << 30;

/// one wrapping step per nesting position that can hold a single nested component
pub const MAKERS: &[&str] = &[
    "neg", "set_ext_alone", "set_int_first", "int_ext_last", "conj_first", "par_last", "product_alone", "product_last", "seq_first", "diff_left", "diff_right",
    "image_ext_after_placeholder", "image_int_before_placeholder", "inh_subject", "inh_predicate", "sim_left", "sim_right", "impl_subject", "equiv_right",
    "impl_pred_predicate", "equiv_conc_left", "mixed",
];

fn other() -> R {
    R::atom(Tag::DVar, "b1")
}

fn wrap(maker: &str, level: usize, x: R) -> R {
    let o = other();
    match maker {
        "neg" => R::node(Tag::Neg, vec![x]),
        "set_ext_alone" => R::node(Tag::SetExt, vec![x]),
        "set_int_first" => R::node(Tag::SetInt, vec![x, o]),
        "int_ext_last" => R::node(Tag::IntExt, vec![o, x]),
        "conj_first" => R::node(Tag::Conj, vec![x, o]),
        "par_last" => R::node(Tag::ParConj, vec![o, x]),
        "product_alone" => R::node(Tag::Product, vec![x]),
        "product_last" => R::node(Tag::Product, vec![o, x]),
        "seq_first" => R::node(Tag::SeqConj, vec![x, o]),
        "diff_left" => R::pair(Tag::DiffExt, x, o),
        "diff_right" => R::pair(Tag::DiffInt, o, x),
        "image_ext_after_placeholder" => R::image(Tag::ImageExt, 0, vec![x]),
        "image_int_before_placeholder" => R::image(Tag::ImageInt, 1, vec![x]),
        "inh_subject" => R::pair(Tag::Inh, x, o),
        "inh_predicate" => R::pair(Tag::Inh, o, x),
        "sim_left" => R::pair(Tag::Sim, x, o),
        "sim_right" => R::pair(Tag::Sim, o, x),
        "impl_subject" => R::pair(Tag::Impl, x, o),
        "equiv_right" => R::pair(Tag::Equiv, o, x),
        "impl_pred_predicate" => R::pair(Tag::ImplPred, o, x),
        "equiv_conc_left" => R::pair(Tag::EquivConc, x, o),
        _ => {
            // "mixed": cycles through the makers above
            let k = MAKERS.len() - 1;
            wrap(MAKERS[level % k], level, x)
        }
    }
}

pub fn tower(maker: &str, depth: usize, leaf: R) -> R {
    let mut t = leaf;
    for level in 0..depth {
        t = wrap(maker, level, t);
    }
    t
}

pub fn depths(tier: Tier) -> Vec<usize> {
    match tier {
        Tier::Quick => vec![65, 129, 130, 257, 513, 514, 1025, 4097],
        Tier::Thorough => vec![65, 66, 127, 128, 129, 130, 255, 256, 257, 258, 511, 512, 513, 514, 1000, 1023, 1024, 1025, 1026, 2047, 2048, 2049, 4095, 4096, 4097, 4098],
    }
}

fn short(s: String) -> String {
    if s.chars().count() <= 700 {
        return s;
    }
    let head: String = s.chars().take(340).collect();
    let tail: String = s.chars().rev().take(340).collect::<Vec<_>>().into_iter().rev().collect();
    format!("{head} ...[{} characters]... {tail}", s.chars().count())
}

fn caught<T>(f: impl FnOnce() -> Result<T, String>) -> Result<T, String> {
    match quiet_catch(AssertUnwindSafe(f)) {
        Ok(r) => r,
        Err(p) => Err(format!("panic: {p}")),
    }
}

fn small_terms() -> Vec<Term> {
    crate::props::hist::small_terms().iter().map(|r| r.build()).collect()
}

/// the property's oracle(s) on the tower (maker, depth)
pub fn case(id: &str, maker: &str, depth: usize) -> Result<(), String> {
    let ra = tower(maker, depth, R::word("a"));
    let rb = tower(maker, depth, R::word("b"));
    let rv = tower(maker, depth, R::atom(Tag::IVar, "a"));
    let taller = tower(maker, depth + 1, R::word("a"));
    let res = match id {
        "C06" => caught(|| {
            let (a1, a2, b, v, e) = (ra.build(), ra.build(), rb.build(), rv.build(), taller.build());
            let c = a1.clone();
            let checks: [(&str, bool); 11] = [
                ("a == a (same value)", a1 == a1),
                ("a == a' (built twice)", a1 == a2),
                ("a' == a", a2 == a1),
                ("a == clone(a)", a1 == c),
                ("a != b (innermost word differs)", a1 != b),
                ("b != a", b != a1),
                ("a != v (innermost atom is a variable of the same name)", a1 != v),
                ("a != taller (one more level at the bottom)", a1 != e),
                ("taller != a", e != a1),
                ("!(a != a')", !(a1 != a2)),
                ("!(a == b)", !(a1 == b)),
            ];
            for (what, ok) in checks {
                if !ok {
                    return Err(format!("`{what}` does not hold"));
                }
            }
            // the canonical form read back from the built value is the recipe's
            if R::canon_of_term(&a1) != ra.canon() {
                return Err("the built value's canonical form is not the recipe's".into());
            }
            Ok(())
        }),
        "C07" => caught(|| {
            let smalls = small_terms();
            let before: Vec<Vec<u64>> = smalls.iter().map(c07::hashes).collect();
            let (a1, a2) = (ra.build(), ra.build());
            c07::check_pair(&a1, &a2)?;
            c07::check_pair(&a1, &a1.clone())?;
            // as an element of an unordered container, built in both insertion orders
            let s1 = R::node(Tag::SetExt, vec![ra.clone(), other()]).build();
            let s2 = R::node(Tag::SetExt, vec![other(), ra.clone()]).build();
            if s1 != s2 {
                return Err("{a, $b1} and {$b1, a} compare unequal".into());
            }
            c07::check_pair(&s1, &s2)?;
            let after: Vec<Vec<u64>> = smalls.iter().map(c07::hashes).collect();
            if before != after {
                return Err("hashes of small terms on this thread changed after the deep term was hashed".into());
            }
            // and on a fresh ordinary thread they are what they were here
            let smalls2 = smalls.clone();
            let elsewhere = std::thread::spawn(move || smalls2.iter().map(c07::hashes).collect::<Vec<_>>()).join().map_err(|_| "thread".to_string())?;
            if elsewhere != before {
                return Err("hashes of small terms differ between this thread and a fresh thread".into());
            }
            Ok(())
        }),
        "C16" => caught(|| {
            let smalls = small_terms();
            let render = |t: &Term| -> Result<Vec<String>, String> {
                let texts = ops::typst_routes(&Narsese::Term(t.clone()))?;
                for s in &texts {
                    c16::normalised(s).map_err(short)?;
                }
                Ok(texts)
            };
            let before: Vec<Vec<String>> = smalls.iter().map(&render).collect::<Result<_, _>>()?;
            let (a, a2, b, v, e) = (render(&ra.build())?, render(&ra.build())?, render(&rb.build())?, render(&rv.build())?, render(&taller.build())?);
            let bags = |x: &Vec<String>| x.iter().map(|s| c16::token_bag(s)).collect::<Vec<_>>();
            if bags(&a) != bags(&a2) {
                return Err("two builds of the same value render differently".into());
            }
            for (what, other) in [("whose innermost word is b instead of a", &b), ("whose innermost atom is the variable $a instead of the word a", &v), ("one level taller", &e)] {
                for x in &a {
                    if other.contains(x) {
                        return Err(short(format!("the tower and the tower {what} both render as {x:?}")));
                    }
                }
            }
            let after: Vec<Vec<String>> = smalls.iter().map(&render).collect::<Result<_, _>>()?;
            if before != after {
                return Err("renderings of small terms on this thread changed after the deep term was rendered".into());
            }
            Ok(())
        }),
        "C14" => c14::case(&ra, &[]).map_err(short),
        "C01" => {
            let v = V::term(ra.clone());
            let mut r = Ok(());
            for f in fmts::all() {
                if let Err(e) = c01::case(&f, &v) {
                    r = Err(short(format!("[{}] {e}", f.name)));
                    break;
                }
            }
            r
        }
        "C03" | "C12" | "C11" => {
            let mut r = Ok(());
            for f in fmts::all() {
                let text = emit::join(&emit::term_toks(&f, &ra), if depth % 2 == 0 { "" } else { " " });
                let one = match id {
                    "C03" => c03::case(&f, &text, Some(&V::term(ra.clone()).canon())),
                    // C12 constrains the values that ARE returned (a parser that rejects a deep text says nothing
                    // against it - that is C01 / C02 / C03's business): whatever either pipeline accepts must be
                    // well-formed, formattable and renderable
                    "C12" => c12::case_parse(&f, &text).and_then(|_| c12::case_text_fold(&f, &text)).map(|_| ()),
                    _ => {
                        if f.name != "ascii" {
                            continue;
                        }
                        // every route's own text must conform to the published grammar
                        let n = Narsese::Term(ra.build());
                        let mut r2 = Ok(());
                        for s in c01::format_routes(&f, &n) {
                            if let Err(e) = c11::case(&s, "term") {
                                r2 = Err(e);
                                break;
                            }
                        }
                        r2
                    }
                };
                if let Err(e) = one {
                    r = Err(short(format!("[{}] {e}", f.name)));
                    break;
                }
            }
            r
        }
        "C02" => {
            // the lexical value is built directly (not obtained from the parser under test)
            let mut r = Ok(());
            for f in fmts::all() {
                let x = narsese::lexical::Narsese::Term(lterm_of(&f, &ra));
                if let Err(e) = c02::case(&f, &x) {
                    r = Err(short(format!("[{}] {e}", f.name)));
                    break;
                }
            }
            r
        }
        _ => Ok(()),
    };
    // the recipes (plain trees of the harness) are dropped here, on the big stack
    res
}

/// the lexical counterpart of a recipe, written with the format's own vocabulary (as the reference formatter `emit`
/// writes it: images with their placeholder among the components)
pub fn lterm_of(f: &F, r: &R) -> narsese::lexical::Term {
    use narsese::lexical::Term as LT;
    let c = &f.e.compound;
    match r.tag.shape() {
        Shape::Atom => {
            let p = emit::atom_prefix(f, r.tag).to_string();
            match r.tag {
                Tag::Placeholder => LT::Atom { prefix: p, name: String::new() },
                Tag::Interval => LT::Atom { prefix: p, name: r.idx.to_string() },
                _ => LT::Atom { prefix: p, name: r.name.clone() },
            }
        }
        Shape::Set if matches!(r.tag, Tag::SetExt | Tag::SetInt) => {
            let (lb, rb) = if r.tag == Tag::SetExt { c.brackets_set_extension } else { c.brackets_set_intension };
            LT::Set { left_bracket: lb.to_string(), terms: r.kids.iter().map(|k| lterm_of(f, k)).collect(), right_bracket: rb.to_string() }
        }
        _ if !r.tag.is_statement() => {
            let mut terms: Vec<LT> = r.kids.iter().map(|k| lterm_of(f, k)).collect();
            if r.tag.shape() == Shape::Image {
                let at = r.idx.min(terms.len());
                terms.insert(at, LT::Atom { prefix: f.e.atom.prefix_placeholder.to_string(), name: String::new() });
            }
            LT::Compound { connecter: emit::connecter(f, r.tag).to_string(), terms }
        }
        _ => LT::Statement { copula: emit::copula(f, r.tag).to_string(), subject: Box::new(lterm_of(f, &r.kids[0])), predicate: Box::new(lterm_of(f, &r.kids[1])) },
    }
}

pub fn applies(id: &str) -> bool {
    matches!(id, "C01" | "C02" | "C03" | "C06" | "C07" | "C11" | "C12" | "C14" | "C16")
}

/// depths a check can afford (the lexical parser's cost grows with depth x remaining text)
fn depth_cap(id: &str, tier: Tier) -> usize {
    match (id, tier) {
        // the lexical parser's cost grows with depth x remaining text; the Typst renderer's with depth squared
        ("C02" | "C03" | "C12", Tier::Quick) => 600,
        ("C02" | "C03" | "C12", Tier::Thorough) => 1100,
        ("C11", Tier::Quick) => 300,
        ("C11", Tier::Thorough) => 600,
        ("C16", _) => 1100,
        _ => usize::MAX,
    }
}

pub fn replay_case(id: &str, c: &J) -> Result<(), String> {
    let maker = c["maker"].as_str().unwrap_or("neg").to_string();
    let depth = c["depth"].as_u64().unwrap_or(129) as usize;
    let id = id.to_string();
    on_big_stack(move || case(&id, &maker, depth))
}

pub fn on_big_stack<T: Send + 'static>(f: impl FnOnce() -> T + Send + 'static) -> T {
    std::thread::Builder::new().stack_size(STACK).spawn(f).expect("big-stack thread").join().expect("big-stack thread panicked outside a guard")
}

/// re-run one journaled case in an expendable process (see main.rs supervise)
pub fn probe(what: &str) {
    let p: Vec<&str> = what.split('|').collect();
    if p.len() == 3 {
        let (id, maker, depth) = (p[0].to_string(), p[1].to_string(), p[2].parse::<usize>().unwrap_or(129));
        let _ = on_big_stack(move || case(&id, &maker, depth));
    }
}

pub fn run(run: &Run, id: &str) {
    if !applies(id) || std::env::var("NVCHECK_NO_DEEP").is_ok() {
        return;
    }
    let t0 = std::time::Instant::now();
    let cap = depth_cap(id, run.tier);
    let ds: Vec<usize> = depths(run.tier).into_iter().filter(|d| *d <= cap).collect();
    run.rule("deep nesting: one tower per nesting position (22 makers) and per depth next to the powers of two, evaluated with the check's own oracle on a 1 GiB stack, with a twin that differs in the innermost leaf and a tower one level taller where the property relates two values");
    run.bound("deep_tower_depths", json!(ds));
    run.sample(json!({"deep_tower": {"maker": MAKERS[MAKERS.len() / 2], "depth": ds.last(), "text_ascii_head": emit::join(&emit::term_toks(&fmts::ascii(), &tower(MAKERS[MAKERS.len() / 2], 3, R::word("a"))), "")}}));
    let violations: std::sync::Mutex<Vec<(String, usize, String)>> = std::sync::Mutex::new(vec![]);
    let n = std::sync::atomic::AtomicU64::new(0);
    std::thread::scope(|s| {
        // one big-stack thread per group of makers (the stacks are virtual memory until touched)
        let groups: Vec<Vec<&str>> = MAKERS.chunks(3).map(|c| c.to_vec()).collect();
        for g in groups {
            let (ds, violations, n) = (&ds, &violations, &n);
            std::thread::Builder::new()
                .stack_size(STACK)
                .spawn_scoped(s, move || {
                    for maker in g {
                        for &d in ds.iter() {
                            let what = format!("{id}|{maker}|{d}");
                            let t1 = std::time::Instant::now();
                            let r = crate::watch::tagged_with_limit("deep", &what, if d > 1100 { crate::watch::BIG_CASE_LIMIT_S } else { crate::watch::LIMIT_S }, || case(id, maker, d));
                            if std::env::var("NVCHECK_DEEP_TIMING").is_ok() {
                                eprintln!("deep {what} {} ms", t1.elapsed().as_millis());
                            }
                            n.fetch_add(1, std::sync::atomic::Ordering::Relaxed);
                            if let Err(e) = r {
                                violations.lock().unwrap().push((maker.to_string(), d, e));
                            }
                        }
                    }
                })
                .expect("big-stack thread");
        }
    });
    let n = n.into_inner();
    run.eval(n);
    run.add_distinct(n);
    run.add_states(n, n);
    run.count("deep_tower_cases", n);
    run.count("deep_wall_ms", t0.elapsed().as_millis() as u64);
    let mut v = violations.into_inner().unwrap();
    v.sort_by(|a, b| (a.1, &a.0).cmp(&(b.1, &b.0)));
    // the shallowest failing depth per maker is reported (the rest are the same story)
    let mut seen = std::collections::HashSet::new();
    for (maker, d, e) in v {
        if !seen.insert(maker.clone()) {
            continue;
        }
        run.violation(&format!("tower `{maker}` nested {d} levels: {e}"), json!({"op": "deep_tower", "maker": maker, "depth": d}), &[]);
    }
}
