//! E5 alphabets: per property, a small set of **verdict ops** (the property's own oracle applied to one
//! fixed input: "ok" / "FAIL: ...") or **value ops** (hash values, renderings), to which the shared
//! context ops of `history::context_ops` are added. Every ordered pair (context or verdict op ; verdict
//! op) is then run on a brand-new thread and compared with the op's baseline (history.rs).
//!
//! The inputs are deliberately few and plain: what is explored here is the *history*, the input shapes
//! are explored by the main sweeps of each check.

use crate::emit;
use crate::fmts::{self, F};
use crate::history::{context_ops, verdict, Op};
use crate::lexu;
use crate::model::*;
use crate::ops;
use crate::props::*;
use narsese::lexical::Narsese as LN;

/// ~30 plain terms: one of each atom kind, look-alikes (word 5 / interval 5), every shape, nesting
pub fn small_terms() -> Vec<R> {
    let a = R::word("a");
    let b = R::atom(Tag::IVar, "b1");
    let st = R::pair(Tag::Inh, a.clone(), b.clone());
    vec![
        a.clone(),
        R::word("5"),
        R::interval(5),
        R::atom(Tag::DVar, "a"),
        R::atom(Tag::QVar, "x-y"),
        R::atom(Tag::Operator, "go"),
        st.clone(),
        R::pair(Tag::Sim, a.clone(), b.clone()),
        R::pair(Tag::Sim, b.clone(), a.clone()),
        R::pair(Tag::EquivConc, st.clone(), R::pair(Tag::Impl, b.clone(), a.clone())),
        R::pair(Tag::ImplRetro, a.clone(), st.clone()),
        R::node(Tag::SetExt, vec![a.clone(), b.clone()]),
        R::node(Tag::SetExt, vec![b.clone(), a.clone()]),
        R::node(Tag::SetInt, vec![R::node(Tag::SetExt, vec![a.clone(), b.clone()]), R::word("5")]),
        R::node(Tag::SetInt, vec![R::interval(5), R::node(Tag::SetExt, vec![b.clone(), a.clone()])]),
        R::node(Tag::ParConj, vec![R::interval(5), R::word("arrive")]),
        R::node(Tag::Conj, vec![st.clone(), R::pair(Tag::Inh, b.clone(), a.clone())]),
        R::node(Tag::Disj, vec![R::pair(Tag::Sim, a.clone(), b.clone()), st.clone(), a.clone()]),
        R::node(Tag::SeqConj, vec![a.clone(), R::interval(0), b.clone()]),
        R::node(Tag::Neg, vec![R::node(Tag::Neg, vec![a.clone()])]),
        R::node(Tag::DiffInt, vec![a.clone(), b.clone()]),
        R::node(Tag::Product, vec![R::node(Tag::Product, vec![a.clone(), b.clone()]), R::word("c")]),
        R::node(Tag::Product, vec![a.clone(), R::node(Tag::Product, vec![b.clone(), R::word("c")])]),
        R::image(Tag::ImageExt, 1, vec![R::word("r"), R::word("x")]),
        R::image(Tag::ImageInt, 0, vec![R::word("r"), st.clone()]),
        R::image(Tag::ImageExt, 2, vec![R::word("r"), R::word("x")]),
        R::pair(Tag::Inh, R::node(Tag::SetExt, vec![a.clone()]), R::node(Tag::SetInt, vec![b.clone()])),
        R::node(Tag::IntExt, vec![R::node(Tag::SetInt, vec![a.clone()]), R::node(Tag::SetInt, vec![b.clone()])]),
    ]
}

/// the terms, plus sentences / tasks covering every punctuation, stamp kind, truth and budget arity
pub fn small_values() -> Vec<V> {
    let mut v: Vec<V> = small_terms().into_iter().map(V::term).collect();
    let a = R::word("a");
    let st = R::pair(Tag::Inh, R::word("a"), R::atom(Tag::IVar, "b1"));
    let mk = |term: &R, p: P, stamp: St, truth: &[f64], budget: Option<&[f64]>| V { term: term.clone(), punct: Some(p), stamp, truth: truth.to_vec(), budget: budget.map(|b| b.to_vec()) };
    v.extend(vec![
        mk(&st, P::Judgement, St::Eternal, &[1.0, 0.9], None),
        mk(&st, P::Judgement, St::Present, &[0.5], None),
        mk(&a, P::Goal, St::Fixed(-1), &[], None),
        mk(&a, P::Question, St::Future, &[], None),
        mk(&st, P::Quest, St::Past, &[], None),
        mk(&R::atom(Tag::IVar, "1"), P::Judgement, St::Eternal, &[1.0, 0.9], None),
        mk(&R::atom(Tag::IVar, "0"), P::Judgement, St::Eternal, &[0.5], None),
        mk(&st, P::Judgement, St::Fixed(137), &[0.25, 0.75], Some(&[0.5, 0.75, 0.4])),
        mk(&a, P::Goal, St::Eternal, &[], Some(&[])),
        mk(&st, P::Question, St::Present, &[], Some(&[0.5])),
        mk(&a, P::Judgement, St::Eternal, &[1.0], Some(&[0.25, 0.5])),
    ]);
    v
}

fn with_context(mut v: Vec<Op>) -> Vec<Op> {
    v.extend(context_ops());
    v
}

pub fn c01_ops() -> Vec<Op> {
    let mut v = vec![];
    for f in fmts::all() {
        for x in small_values().into_iter().step_by(2) {
            if !c01::features(&f, &x).is_empty() {
                continue;
            }
            let x2 = x.clone();
            v.push(verdict(format!("round trip[{}] {}", f.name, x.show()), move || c01::case(&f, &x)));
            if !x2.term.kids.is_empty() && x2.punct.is_none() {
                v.push(verdict(format!("round trip through a format instance overwritten in place[{}] {}", f.name, x2.show()), move || c01::case(&fmts::in_slot(&f), &x2)));
            }
        }
    }
    with_context(v)
}

fn lexical_small(f: &F) -> Vec<LN> {
    let mut v: Vec<LN> = lexu::reps(f).into_iter().step_by(3).map(LN::Term).collect();
    v.extend(lexu::few_sentences(f));
    v
}

pub fn c02_ops() -> Vec<Op> {
    let mut v = vec![];
    for f in fmts::all() {
        for x in lexical_small(&f) {
            if !c02::features(&x).is_empty() {
                continue;
            }
            let x2 = x.clone();
            let x3 = x.clone();
            v.push(verdict(format!("lexical round trip[{}] {x:?}", f.name), move || c02::case(&f, &x)));
            v.push(verdict(format!("lexical round trip through a format instance overwritten in place[{}] {x3:?}", f.name), move || c02::case(&fmts::in_slot(&f), &x3)));
            if !matches!(x2, LN::Term(_)) {
                continue;
            }
            // the same through a format instance of the caller's own, created and dropped around the call
            let name = f.name;
            v.push(verdict(format!("lexical round trip on an owned format[{name}] {x2:?}"), move || {
                use narsese::conversion::string::impl_lexical::format_instances as fi;
                let own = match name {
                    "ascii" => fi::create_format_ascii(),
                    "latex" => fi::create_format_latex(),
                    _ => fi::create_format_han(),
                };
                let s = own.format_narsese(&x2);
                match own.parse(&s) {
                    Ok(y) if y == x2 => Ok(()),
                    Ok(y) => Err(format!("{s:?} parses to {y:?}")),
                    Err(e) => Err(format!("{s:?} is rejected: {e}")),
                }
            }));
        }
    }
    with_context(v)
}

pub fn c03_ops() -> Vec<Op> {
    let mut v = vec![];
    for f in fmts::all() {
        for x in small_values().into_iter().skip(1).step_by(2) {
            if !c01::features(&f, &x).is_empty() {
                continue;
            }
            // written without any optional blank (as the Han formatter prints it): names touch the copulas
            let s = emit::join(&emit::value(&f, &x), "");
            if !c03::features(&f, Some(&x), &s).is_empty() {
                continue;
            }
            let expect = x.canon();
            let (s2, e2, plain) = (s.clone(), expect.clone(), x.punct.is_none() && !x.term.kids.is_empty());
            v.push(verdict(format!("pipelines agree[{}] {s:?}", f.name), move || c03::case(&f, &s, Some(&expect))));
            if plain {
                v.push(verdict(format!("pipelines agree through format instances overwritten in place[{}] {s2:?}", f.name), move || c03::case(&fmts::in_slot(&f), &s2, Some(&e2))));
            }
        }
    }
    with_context(v)
}

pub fn c05_ops() -> Vec<Op> {
    let mut v = vec![];
    for f in fmts::all() {
        for (n, s) in c08::history_inputs(&f).into_iter().step_by(5) {
            let s2 = s.clone();
            v.push(verdict(format!("lexical parse returns[{}] {n}: {s:?}", f.name), move || c05::case_parse(&f, "parse", &s)));
            v.push(verdict(format!("lexical parse_term returns[{}] {n}: {s2:?}", f.name), move || c05::case_parse(&f, "parse_term", &s2)));
        }
    }
    // lexical parsing through a format instance of the caller's own, created and dropped inside the op: short
    // and long inputs of every format
    for f in fmts::all() {
        let name = f.name;
        for (n, text) in c08::history_inputs(&f).into_iter().filter(|(n, _)| ["term", "atom", "task", "unterminated-compound", "image"].contains(&n.as_str())) {
            for short in [false, true] {
                let t: String = if short { text.chars().take(5).collect() } else { text.clone() };
                v.push(verdict(format!("lexical parse on an owned format returns[{name}] {n}: {t:?}"), move || {
                    use narsese::conversion::string::impl_lexical::format_instances as fi;
                    let own = match name {
                        "ascii" => fi::create_format_ascii(),
                        "latex" => fi::create_format_latex(),
                        _ => fi::create_format_han(),
                    };
                    crate::report::quiet_catch(std::panic::AssertUnwindSafe(|| (own.parse(&t).is_ok(), own.parse_term(&t).is_ok()))).map_err(|p| format!("lexical parse on an owned {name} format panics on {t:?}: {p}"))
                }));
            }
        }
    }
    // a dozen hand-built hostile values (the hostile universe is the main sweep's business and far too
    // large to rebuild in every baseline process)
    let hv: Vec<LN> = {
        use narsese::lexical::{Sentence as LS, Task as LT, Term as LTerm};
        let atom = |p: &str, n: &str| LTerm::Atom { prefix: p.to_string(), name: n.to_string() };
        let comp = |c: &str, ts: Vec<LTerm>| LTerm::Compound { connecter: c.to_string(), terms: ts };
        let a = atom("", "a");
        let sent = |t: LTerm, stamp: &str, truth: Vec<&str>| LS { term: t, punctuation: ".".to_string(), stamp: stamp.to_string(), truth: truth.into_iter().map(String::from).collect() };
        vec![
            LN::Term(atom("??", "a")),
            LN::Term(atom("$", "")),
            LN::Term(atom("+", "abc")),
            LN::Term(comp("??", vec![a.clone()])),
            LN::Term(comp("/", vec![a.clone(), a.clone()])),
            LN::Term(comp("/", vec![atom("_", ""), a.clone(), atom("_", "")])),
            LN::Term(comp("--", vec![a.clone(), a.clone(), a.clone()])),
            LN::Term(comp("-", vec![a.clone()])),
            LN::Term(comp("&&", vec![])),
            LN::Term(LTerm::Statement { copula: "?!".to_string(), subject: Box::new(a.clone()), predicate: Box::new(a.clone()) }),
            LN::Term(LTerm::Set { left_bracket: "{".to_string(), terms: vec![comp("/", vec![a.clone()])], right_bracket: "]".to_string() }),
            LN::Sentence(sent(a.clone(), ":!x:", vec!["abc"])),
            LN::Sentence(sent(a.clone(), ":|:", vec!["0.5", "NaN", "1"])),
            LN::Task(LT { budget: vec!["0.5".into(), "0.5".into(), "1.5".into(), "0.5".into()], sentence: sent(a.clone(), "", vec![]) }),
        ]
    };
    let step = 1;
    for x in hv.into_iter().step_by(step) {
        for f in fmts::all() {
            let x = x.clone();
            v.push(verdict(format!("fold returns[{}] {x:?}", f.name), move || c05::case_fold(&f, &x)));
        }
    }
    with_context(v)
}

/// the recipe with the components of every unordered node reversed (a different construction history
/// of the same value)
fn mirrored(r: &R) -> R {
    let mut kids: Vec<R> = r.kids.iter().map(mirrored).collect();
    if matches!(r.tag.shape(), Shape::Set | Shape::SymPair) {
        kids.reverse();
    }
    R { tag: r.tag, name: r.name.clone(), idx: r.idx, kids }
}

pub fn c06_ops() -> Vec<Op> {
    let ts: Vec<R> = small_terms().into_iter().filter(|r| !r.kids.is_empty() || r.tag == Tag::Interval).collect();
    let mut v = vec![];
    for (i, r) in ts.iter().enumerate() {
        let (r1, m1) = (r.clone(), mirrored(r));
        v.push(verdict(format!("{} == the same value built the other way round", r.show()), move || {
            let (a, b) = (r1.build(), m1.build());
            if a == b && b == a && a == a.clone() { Ok(()) } else { Err("equal values compare unequal".to_string()) }
        }));
        // built on another thread, compared here
        let (r2, m2) = (r.clone(), mirrored(r));
        v.push(verdict(format!("{} built on another thread == built here", r.show()), move || {
            let m3 = m2.clone();
            let there = std::thread::spawn(move || m3.build()).join().map_err(|_| "builder thread died".to_string())?;
            let here = r2.build();
            if there == here && here == there && there == there.clone() { Ok(()) } else { Err("a value built on another thread compares unequal to the same value built here".to_string()) }
        }));
        let next = ts[(i + 1) % ts.len()].clone();
        if next.canon() != r.canon() {
            let r3 = r.clone();
            v.push(verdict(format!("{} != {}", r.show(), next.show()), move || {
                let (a, b) = (r3.build(), next.build());
                if a != b && b != a { Ok(()) } else { Err("different values compare equal".to_string()) }
            }));
        }
    }
    with_context(v)
}

/// value ops: the hashes of a term under fixed hashers (compared with the first evaluation in this process)
pub fn c07_ops() -> Vec<Op> {
    let mut v = vec![];
    for r in small_terms().into_iter().filter(|r| !r.kids.is_empty() || r.tag == Tag::Interval || r.name == "5") {
        let m = mirrored(&r);
        let r1 = r.clone();
        v.push(Op::new(format!("hashes of {}", r.show()), move || format!("{:x?}", c07::hashes(&r1.build()))));
        v.push(Op::new(format!("hashes of {} built the other way round", r.show()), move || format!("{:x?}", c07::hashes(&m.build()))));
        let r3 = r.clone();
        v.push(Op::new(format!("hashes of {} built on another thread", r.show()), move || {
            let r4 = r3.clone();
            match std::thread::spawn(move || r4.build()).join() {
                Ok(t) => format!("{:x?}", c07::hashes(&t)),
                Err(_) => "builder thread died".to_string(),
            }
        }));
        let r2 = r.clone();
        v.push(Op::new(format!("{} found in a set holding it", r.show()), move || {
            let mut s = std::collections::HashSet::new();
            s.insert(r2.build());
            format!("{}", s.contains(&mirrored(&r2).build()))
        }));
    }
    with_context(v)
}

pub fn c09_ops() -> Vec<Op> {
    let mut v = vec![];
    for f in fmts::all() {
        for x in small_values().into_iter().step_by(5) {
            if !c01::features(&f, &x).is_empty() {
                continue;
            }
            let toks = emit::value(&f, &x);
            let expect = x.canon();
            for sp in ["", "  "] {
                let s = emit::join_with(&toks, &vec![sp; toks.len() + 1]);
                for p in [c10::Pipe::Enum, c10::Pipe::LexFold] {
                    let (s2, e2) = (s.clone(), expect.clone());
                    let (s3, e3) = (s.clone(), expect.clone());
                    v.push(verdict(format!("spacing[{}] {p:?} {s:?}", f.name), move || c09::check(&f, p, &s2, &e2)));
                    if sp.is_empty() {
                        v.push(verdict(format!("spacing through format instances overwritten in place[{}] {p:?} {s:?}", f.name), move || c09::check(&fmts::in_slot(&f), p, &s3, &e3)));
                    }
                }
            }
        }
    }
    with_context(v)
}

pub fn c10_ops() -> Vec<Op> {
    let mut v = vec![];
    let (s, p) = (R::word("a"), R::atom(Tag::IVar, "b1"));
    let se = |x: &R| R::node(Tag::SetExt, vec![x.clone()]);
    let si = |x: &R| R::node(Tag::SetInt, vec![x.clone()]);
    for f in fmts::all() {
        let e = f.e;
        let st = &e.statement;
        let c = &e.compound;
        let (ss, ps) = (emit::join(&emit::term_toks(&f, &s), ""), emit::join(&emit::term_toks(&f, &p), ""));
        let stmt = |cop: &str| format!("{}{}{}{}{}", st.brackets.0, ss, cop, ps, st.brackets.1);
        let img = |items: &[&str], conn: &str| format!("{}{}{}{}{}", c.brackets.0, conn, c.separator, items.join(c.separator), c.brackets.1);
        let ph = e.atom.prefix_placeholder;
        let mut cases: Vec<(String, R)> = vec![
            (stmt(st.copula_instance), R::pair(Tag::Inh, se(&s), p.clone())),
            (stmt(st.copula_property), R::pair(Tag::Inh, s.clone(), si(&p))),
            (stmt(st.copula_instance_property), R::pair(Tag::Inh, se(&s), si(&p))),
            (stmt(st.copula_equivalence_retrospective), R::pair(Tag::EquivPred, p.clone(), s.clone())),
            (img(&["r", ph, "x"], c.connecter_image_extension), R::image(Tag::ImageExt, 1, vec![R::word("r"), R::word("x")])),
            (img(&[ph, "r", "x"], c.connecter_image_intension), R::image(Tag::ImageInt, 0, vec![R::word("r"), R::word("x")])),
            (img(&["r", "x", ph], c.connecter_image_extension), R::image(Tag::ImageExt, 2, vec![R::word("r"), R::word("x")])),
            (format!("{}0007", e.atom.prefix_interval), R::interval(7)),
        ];
        cases.push((img(&["r", ph, "x", "y"], c.connecter_image_intension), R::image(Tag::ImageInt, 1, vec![R::word("r"), R::word("x"), R::word("y")])));
        for (text, expect) in cases {
            for pipe in [c10::Pipe::Enum, c10::Pipe::LexFold] {
                let (t2, e2) = (text.clone(), expect.clone());
                let (t3, e3) = (text.clone(), expect.clone());
                v.push(verdict(format!("meaning[{}] {pipe:?} {text:?}", f.name), move || c10::case(&f, pipe, &t2, Some(&e2))));
                v.push(verdict(format!("meaning through format instances overwritten in place[{}] {pipe:?} {text:?}", f.name), move || c10::case(&fmts::in_slot(&f), pipe, &t3, Some(&e3))));
            }
        }
    }
    with_context(v)
}

pub fn c11_ops() -> Vec<Op> {
    let f = fmts::ascii();
    let mut v = vec![];
    for x in small_values() {
        if !c01::features(&f, &x).is_empty() {
            continue;
        }
        let kind = match x.kind() {
            Kind::Term => "term",
            Kind::Sentence => "sentence",
            Kind::Task => "task",
        };
        v.push(verdict(format!("grammar conformance of the ASCII text of {}", x.show()), move || {
            let s = f.e.format_narsese(&x.build());
            c11::case(&s, kind)
        }));
    }
    for x in lexical_small(&f) {
        if !c02::features(&x).is_empty() {
            continue;
        }
        let kind = match &x {
            LN::Term(_) => "term",
            LN::Sentence(_) => "sentence",
            LN::Task(_) => "task",
        };
        v.push(verdict(format!("grammar conformance of the lexical ASCII text of {x:?}"), move || c11::case(&f.l.format_narsese(&x), kind)));
    }
    with_context(v)
}

pub fn c12_ops() -> Vec<Op> {
    let mut v = vec![];
    for f in fmts::all() {
        for (n, s) in c08::history_inputs(&f).into_iter().step_by(5) {
            let (s1, s2) = (s.clone(), s.clone());
            v.push(verdict(format!("well-formed result[{}] enum parse {n}: {s:?}", f.name), move || c12::case_parse(&f, &s1)));
            v.push(verdict(format!("well-formed result[{}] lexical parse + fold {n}", f.name), move || c12::case_text_fold(&f, &s2)));
        }
    }
    with_context(v)
}

pub fn c13_ops() -> Vec<Op> {
    let mut v = vec![];
    let fl = c13::alphabet();
    for &x in &fl {
        v.push(verdict(format!("evidence-number API on {x:?}"), move || c13::check_number(x)));
    }
    let pick = [0.0, -0.0, 0.5, 1.0, 1.0000000000000002, -5e-324, f64::NAN];
    for &a in &pick {
        v.push(verdict(format!("truth / budget constructors on [{a:?}]"), move || c13::check_truth(&[a]).and_then(|_| c13::check_budget(&[a]))));
        for &b in &pick {
            v.push(verdict(format!("truth / budget constructors on [{a:?}, {b:?}]"), move || c13::check_truth(&[a, b]).and_then(|_| c13::check_budget(&[a, b]))));
        }
    }
    // single root calls: the n-th root of a valid number is valid
    for &x in &[0.0f64, -0.0, 5e-324, 1e-300, 0.9999999999999999, 1.0] {
        for n in [0usize, 1, 2, 3, 64] {
            v.push(verdict(format!("root({x:?}, {n}) is valid"), move || {
                use narsese::api::EvidentNumber;
                let r = x.root(n);
                if c13::valid(r) { Ok(()) } else { Err(format!("root({x:?}, {n}) = {r:?} is not a valid evidence number")) }
            }));
        }
    }
    v.push(verdict("constructors on four valid components", || c13::check_truth(&[0.5, 0.5, 0.5, 0.5]).and_then(|_| c13::check_budget(&[0.5, 0.5, 0.5, 0.5])).and_then(|_| c13::check_supply(&[0.5, 0.25, 0.75]))));
    with_context(v)
}

pub fn c14_ops() -> Vec<Op> {
    let mut v = vec![];
    for r in small_terms() {
        v.push(verdict(format!("components / category / capacity of {}", r.show()), move || c14::case(&r, &[])));
    }
    for f in fmts::all() {
        for x in lexu::reps(&f).into_iter().step_by(3) {
            v.push(verdict(format!("lexical components / category[{}] {x:?}", f.name), move || c14::case_lex(&f, &x)));
        }
    }
    with_context(v)
}

pub fn c15_ops() -> Vec<Op> {
    let mut v = vec![];
    for f in fmts::all() {
        for x in small_values().into_iter().skip(26) {
            if !c01::features(&f, &x).is_empty() {
                continue;
            }
            v.push(verdict(format!("classification / conversions[{}] {}", f.name, x.show()), move || c15::case_enum(&f, &x)));
        }
        for x in lexical_small(&f).into_iter().skip(8) {
            if !c02::features(&x).is_empty() {
                continue;
            }
            v.push(verdict(format!("lexical classification / conversions[{}] {x:?}", f.name), move || c15::case_lex(&f, &x)));
        }
    }
    with_context(v)
}

use crate::props::c16::token_bag;

/// value ops: the Typst text of a value, as a bag of tokens. "Equal values render identically up to the order of
/// unordered components": whenever a value is rendered - first call of the process or after other calls, here or
/// on another thread - it must print the same tokens (a renderer may remember an equal value's text and print that).
pub fn c16_ops() -> Vec<Op> {
    let mut v = vec![];
    for x in small_values() {
        if !c16::features(&x).is_empty() {
            continue;
        }
        let x2 = x.clone();
        v.push(Op::new(format!("Typst text of {}", x.show()), move || match ops::typst(&x.build()) {
            Ok(s) => token_bag(&s),
            Err(e) => e,
        }));
        if !x2.term.kids.is_empty() {
            v.push(Op::new(format!("Typst text of {} built on another thread", x2.show()), move || {
                let x3 = x2.clone();
                match std::thread::spawn(move || x3.build()).join() {
                    Ok(n) => ops::typst(&n).map(|s| token_bag(&s)).unwrap_or_else(|e| e),
                    Err(_) => "builder thread died".to_string(),
                }
            }));
        }
    }
    with_context(v)
}

/// push `pushed` into a term built from `target` (on another thread if `elsewhere`): the result must hold
/// exactly the union
fn push_case(target: &R, pushed: &[R], elsewhere: bool) -> Result<(), String> {
    let t2 = target.clone();
    let mut t = if elsewhere { std::thread::spawn(move || t2.build()).join().map_err(|_| "builder thread died".to_string())? } else { target.build() };
    let items: Vec<narsese::enum_narsese::Term> = pushed.iter().map(|r| r.build()).collect();
    let mut all = target.kids.clone();
    all.extend(pushed.iter().cloned());
    let want = R::node(target.tag, all).canon();
    t.push_components(items).map_err(|e| format!("push into {} fails: {e}", target.show()))?;
    let got = R::of_term(&t);
    if got.canon() != want {
        return Err(format!("push gives {} instead of {}", got.canon().show(), want.show()));
    }
    if got.kids.len() != want.kids.len() {
        return Err(format!("after the push the term holds {} components, the united value has {}", got.kids.len(), want.kids.len()));
    }
    Ok(())
}

pub fn c17_ops() -> Vec<Op> {
    let mut v = vec![];
    // pushes of look-alikes (terms the hash cannot tell apart from a held component) and of components the target
    // already holds, into a target built here or on another thread
    {
        let (a, b) = (R::word("a"), R::word("b"));
        let held = [
            R::node(Tag::Product, vec![a.clone(), b.clone()]),
            R::node(Tag::SetExt, vec![a.clone(), b.clone()]),
            R::pair(Tag::Sim, a.clone(), b.clone()),
            a.clone(),
        ];
        let twins = [
            R::node(Tag::SeqConj, vec![a.clone(), b.clone()]),
            R::node(Tag::SetExt, vec![b.clone(), a.clone()]),
            R::pair(Tag::Sim, b.clone(), a.clone()),
            R::atom(Tag::IVar, "a"),
        ];
        for tag in [Tag::SetExt, Tag::Conj, Tag::ParConj] {
            for (h, tw) in held.iter().zip(twins.iter()) {
                for elsewhere in [false, true] {
                    let target = R::node(tag, vec![h.clone(), R::word("c")]);
                    let (t1, p1) = (target.clone(), vec![tw.clone()]);
                    v.push(verdict(format!("push {} into {}{}", tw.show(), target.show(), if elsewhere { " built on another thread" } else { "" }), move || push_case(&t1, &p1, elsewhere)));
                    let (t2, p2) = (target.clone(), vec![h.clone()]);
                    v.push(verdict(format!("push the held {} into {}{}", h.show(), target.show(), if elsewhere { " built on another thread" } else { "" }), move || push_case(&t2, &p2, elsewhere)));
                }
            }
        }
    }
    let inits = c17::inits();
    let acts: Vec<c17::Act> = (0..c17::NAMES.len() as u8).step_by(6).map(c17::Act::SetName).chain((0..c17::push_lists().len() as u8).step_by(3).map(c17::Act::Push)).collect();
    for (i, init) in inits.iter().enumerate().step_by(6) {
        for &a in &acts {
            let init = init.clone();
            v.push(verdict(format!("mutator on initial term #{i} {}: {a:?}", init.show()), move || c17::replay_history(&init, &[a]).map(|_| ())));
        }
    }
    with_context(v)
}
