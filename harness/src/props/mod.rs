//! one module per property

use crate::report::{Run, Tier};

pub mod c01;
pub mod c03;

pub fn run(id: &str, tier: Tier) -> i32 {
    let run = match id {
        "C01" => { let r = Run::new("C01", tier); c01::run(&r); r }
        "C03" => { let r = Run::new("C03", tier); c03::run(&r); r }
        _ => {
            eprintln!("unknown property id {id}");
            return 2;
        }
    };
    run.finish()
}

pub fn replay_case(id: &str, op: &str, case: &serde_json::Value) -> Result<(), String> {
    match (id, op) {
        (_, "enum_roundtrip") => c01::replay_case(case),
        (_, "pipelines_agree") | (_, "vocab_table") => c03::replay_case(case),
        _ => Err(format!("no replayer for property {id} op {op:?}")),
    }
}

pub fn replay(id: &str, path: &str) -> i32 {
    let text = match std::fs::read_to_string(path) {
        Ok(t) => t,
        Err(e) => { eprintln!("cannot read {path}: {e}"); return 2; }
    };
    let j: serde_json::Value = match serde_json::from_str(&text) {
        Ok(j) => j,
        Err(e) => { eprintln!("bad replay file: {e}"); return 2; }
    };
    crate::replay::replay(id, &j)
}
