//! one module per property

use crate::report::{Run, Tier};

pub mod c01;
pub mod c02;
pub mod c03;
pub mod c04;
pub mod c05;
pub mod c06;
pub mod c07;
pub mod c08;
pub mod c08e;
pub mod c09;
pub mod c10;
pub mod c11;
pub mod c12;
pub mod c13;
pub mod c14;
pub mod c15;
pub mod c16;
pub mod c17;
pub mod deep;
pub mod hist;

/// E5 for the properties whose op alphabets live in hist.rs: verdict ops against fresh-process baselines,
/// value ops (C07 hashes, C16 renderings) against the first evaluation in this process
fn explore_history(r: &Run, id: &str) {
    use crate::history::{explore_with, Base, Mode};
    if id == "C08" || id == "C04" {
        return; // C08 explores its own alphabet inside c08::run; C04's entry points are C08's
    }
    if std::env::var("NVCHECK_NO_HISTORY").is_ok() {
        return; // measurements only
    }
    let t0 = std::time::Instant::now();
    let ops = history_ops(id);
    if ops.is_empty() {
        return;
    }
    let (mode, base) = match id {
        "C07" | "C16" => (Mode::Strict, Base::InProcess),
        _ => (Mode::Verdict, Base::FreshProcess),
    };
    r.rule("call histories: every ordered pair of ops (the property's oracle on a few plain inputs + shared context calls that fail half-way, use another format, touch look-alike values) on a brand-new thread, compared with the op evaluated with no earlier call");
    guarded(r, || explore_with(r, id, &ops, 2, mode, base, &[]));
    if r.tier == Tier::Thorough {
        // three calls in a row, over a thinned alphabet (every 5th context op, every 3rd property op)
        let thin: Vec<crate::history::Op> = ops.iter().filter(|o| o.is_context).step_by(5).chain(ops.iter().filter(|o| !o.is_context).step_by(3)).cloned().collect();
        guarded(r, || explore_with(r, id, &thin, 3, mode, base, &[]));
    }
    r.count("history_wall_ms", t0.elapsed().as_millis() as u64);
}

pub fn run(id: &str, tier: Tier) -> i32 {
    if std::env::var("NVCHECK_ONLY_DEEP").is_ok() {
        // measurements only: the deep-tower phase without the check's main enumeration (never used by a registered command)
        let ids = ["C01", "C02", "C03", "C06", "C07", "C11", "C12", "C14", "C16"];
        let Some(sid) = ids.iter().find(|x| **x == id) else { return 2 };
        let r = Run::new(sid, tier);
        start_watchdog(sid);
        guarded(&r, || deep::run(&r, id));
        return r.finish();
    }
    let run = run_check(id, tier);
    let run = match run {
        Some(r) => r,
        None => return 2,
    };
    guarded(&run, || deep::run(&run, id));
    explore_history(&run, id);
    run.finish()
}

fn run_check(id: &str, tier: Tier) -> Option<Run> {
    let run = match id {
        "C01" => { let r = Run::new("C01", tier); start_watchdog("C01"); guarded(&r, || c01::run(&r)); r }
        "C02" => { let r = Run::new("C02", tier); start_watchdog("C02"); guarded(&r, || c02::run(&r)); r }
        "C03" => { let r = Run::new("C03", tier); start_watchdog("C03"); guarded(&r, || c03::run(&r)); r }
        "C04" => { let r = Run::new("C04", tier); start_watchdog("C04"); guarded(&r, || c04::run(&r)); r }
        "C05" => { let r = Run::new("C05", tier); start_watchdog("C05"); guarded(&r, || c05::run(&r)); r }
        "C06" => { let r = Run::new("C06", tier); start_watchdog("C06"); guarded(&r, || c06::run(&r)); r }
        "C07" => { let r = Run::new("C07", tier); start_watchdog("C07"); guarded(&r, || c07::run(&r)); r }
        "C08" => { let r = Run::new("C08", tier); start_watchdog("C08"); guarded(&r, || c08::run(&r)); r }
        "C09" => { let r = Run::new("C09", tier); start_watchdog("C09"); guarded(&r, || c09::run(&r)); r }
        "C10" => { let r = Run::new("C10", tier); start_watchdog("C10"); guarded(&r, || c10::run(&r)); r }
        "C11" => { let r = Run::new("C11", tier); start_watchdog("C11"); guarded(&r, || c11::run(&r)); r }
        "C12" => { let r = Run::new("C12", tier); start_watchdog("C12"); guarded(&r, || c12::run(&r)); r }
        "C13" => { let r = Run::new("C13", tier); start_watchdog("C13"); guarded(&r, || c13::run(&r)); r }
        "C14" => { let r = Run::new("C14", tier); start_watchdog("C14"); guarded(&r, || c14::run(&r)); r }
        "C15" => { let r = Run::new("C15", tier); start_watchdog("C15"); guarded(&r, || c15::run(&r)); r }
        "C16" => { let r = Run::new("C16", tier); start_watchdog("C16"); guarded(&r, || c16::run(&r)); r }
        "C17" => { let r = Run::new("C17", tier); start_watchdog("C17"); guarded(&r, || c17::run(&r)); r }
        _ => {
            eprintln!("unknown property id {id}");
            return None;
        }
    };
    Some(run)
}

/// the call-history alphabet (E5) of a property; built the same way in every process
pub fn history_ops(id: &str) -> Vec<crate::history::Op> {
    crate::history::numbered(history_ops_unnumbered(id))
}

fn history_ops_unnumbered(id: &str) -> Vec<crate::history::Op> {
    match id {
        "C01" => hist::c01_ops(),
        "C02" => hist::c02_ops(),
        "C03" => hist::c03_ops(),
        "C05" => hist::c05_ops(),
        "C06" => hist::c06_ops(),
        "C07" => hist::c07_ops(),
        "C08" => c08::history_ops(),
        "C09" => hist::c09_ops(),
        "C10" => hist::c10_ops(),
        "C11" => hist::c11_ops(),
        "C12" => hist::c12_ops(),
        "C13" => hist::c13_ops(),
        "C14" => hist::c14_ops(),
        "C15" => hist::c15_ops(),
        "C16" => hist::c16_ops(),
        "C17" => hist::c17_ops(),
        _ => vec![],
    }
}

/// A panic that escapes every per-case guard (while building, hashing or comparing values of the
/// universe) is reported as a violation with the panic message instead of killing the process.
fn guarded(run: &Run, f: impl FnOnce()) {
    if let Err(p) = crate::report::quiet_catch_unwatched(std::panic::AssertUnwindSafe(f)) {
        run.violation(
            &format!("a panic escaped while values of the universe were being built, hashed or compared (outside any guarded case): {p}"),
            serde_json::json!({"op": "escaped_panic", "message": p}),
            &[],
        );
    }
}

/// non-termination becomes a verdict: report the case that has been running too long and exit 1
fn start_watchdog(id: &'static str) {
    crate::watch::start(move |what| {
        let path = format!("{}/replays/{}-hang.json", crate::report::out_dir(), id);
        let _ = std::fs::create_dir_all(format!("{}/replays", crate::report::out_dir()));
        let _ = std::fs::write(&path, serde_json::json!({"property": id, "summary": "case did not terminate within the watchdog limit", "case": {"op": "hang", "input": what}}).to_string());
        println!("VIOLATION property={} replay={}", id, path);
        println!("  a single case has consumed more than its CPU budget on its thread ({} s; {} s for the few deliberately large cases) or been blocked for more than {} s without finishing: {:?}", crate::watch::LIMIT_S, crate::watch::BIG_CASE_LIMIT_S, crate::watch::WALL_LIMIT_S, what);
        std::process::exit(1);
    });
}

/// re-run one journaled case (see watch.rs / main.rs supervise): every string-level entry point
/// the string sweeps of C04 / C05 / C12 use, or a fold of a JSON lexical value
pub fn probe(_id: &str, tag: &str, what: &str) {
    if let Some(fmt) = tag.strip_prefix("fold:") {
        let f = crate::fmts::by_name(fmt);
        let j: serde_json::Value = serde_json::from_str(what).unwrap_or(serde_json::Value::Null);
        let x = c02::ln_from_json(&j);
        let _ = c05::case_fold(&f, &x);
        let _ = c12::case_fold(&f, &x);
        return;
    }
    if tag == "deep" {
        deep::probe(what);
        return;
    }
    if tag.is_empty() {
        return;
    }
    let f = crate::fmts::by_name(tag);
    for e in c04::ENTRIES {
        let _ = c04::case(&f, e, what);
    }
    for e in ["parse", "parse_term"] {
        let _ = c05::case_parse(&f, e, what);
    }
    let _ = c12::case_parse(&f, what);
    let _ = c12::case_text_fold(&f, what);
}

pub fn replay_case(id: &str, op: &str, case: &serde_json::Value) -> Result<(), String> {
    if op == "crash" {
        // run the probe in a subprocess: the case is expected to kill it
        let exe = std::path::PathBuf::from("/proc/self/exe");
        let probe = format!("{}/target/probe-replay-{id}.json", crate::report::out_dir());
        std::fs::write(&probe, serde_json::json!({"tag": case["tag"], "what": case["what"]}).to_string()).map_err(|e| e.to_string())?;
        let st = std::process::Command::new(exe).args([id, "--probe", probe.as_str()]).env("NVCHECK_CHILD", "1").status().map_err(|e| e.to_string())?;
        return if st.code() == Some(0) { Ok(()) } else { Err(format!("the probe process dies: {st}")) };
    }
    if op == "escaped_panic" {
        return Err("recorded panic outside a guarded case; re-run the check to re-evaluate".into());
    }
    if op == "hang" {
        return Err("recorded non-termination; re-run the check to re-evaluate".into());
    }
    if op == "call_history" {
        return crate::history::replay(id, &history_ops(id), case);
    }
    match (id, op) {
        (_, "deep_tower") => deep::replay_case(id, case),
        (_, "edited_clone") => c08e::replay_case(case),
        (_, "push_once") => c17::replay_case(case),
        (_, "classification_items") | (_, "classification_batch") | (_, "classification_pair") => c15::replay_case(case),
        (_, "derived_constructor") => c10::replay_case(case),
        (_, "route") => c06::replay_route(case),
        (_, "macro") | (_, "typst_item") => Err("this case is part of a fixed list that the check evaluates in one go (macro invocations compiled into the harness / the item sweep); re-run the check to re-evaluate".into()),
        (_, "options_wf") => c12::replay_case(case),
        (_, "enum_roundtrip") => c01::replay_case(case),
        (_, "lexical_roundtrip") => c02::replay_case(case),
        (_, "components") | (_, "lexical_components") => c14::replay_case(case),
        (_, "conversions_enum") | (_, "conversions_lexical") => c15::replay_case(case),
        (_, "enum_parse_total") | (_, "parse_error_grid") => c04::replay_case(case),
        (_, "lexical_parse_total") | (_, "fold_total") => c05::replay_case(case),
        (_, "parse_wf") | (_, "fold_wf") | (_, "text_fold_wf") | (_, "side_door_wf") => c12::replay_case(case),
        (_, "eq_pair") => c06::replay_case(case),
        (_, "hash_pair") => c07::replay_case(case),
        (_, "typst_collision") | (_, "typst_render") => c16::replay_case(case),
        (_, "parse_sequence") | (_, "lexical_sequence") | (_, "volume") | (_, "soak") | (_, "target_routes") => c08::replay_case(case),
        (_, "mutator_history") | (_, "set_name_once") => c17::replay_case(case),
        (_, "spacing") | (_, "spacing_batch") => c09::replay_case(case),
        (_, "truth_floats") | (_, "budget_floats") | (_, "evident_number") => c13::replay_case(case),
        (_, "ascii_lexicon") | (_, "grammar_conformance_lexical") | (_, "grammar_conformance_enum") => c11::replay_case(case),
        (_, "meaning") => c10::replay_case(case),
        (_, "pipelines_agree") | (_, "vocab_table") => c03::replay_case(case),
        _ => Err(format!("no replayer for property {id} op {op:?}")),
    }
}

pub fn replay(id: &str, path: &str) -> i32 {
    let text = match std::fs::read_to_string(path) {
        Ok(t) => t,
        Err(e) => { eprintln!("cannot read {path}: {e}"); return 2; }
    };
    let j: serde_json::Value = match serde_json::from_str(&text) {
        Ok(j) => j,
        Err(e) => { eprintln!("bad replay file: {e}"); return 2; }
    };
    crate::replay::replay(id, &j)
}
