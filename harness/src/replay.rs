//! Replays one recorded case without the explorer: re-evaluates the oracle named in the file
//! against the real code and reports whether it still fails.

use serde_json::Value as J;

pub fn replay(id: &str, j: &J) -> i32 {
    crate::report::install_quiet_panic_hook();
    let case = &j["case"];
    let op = case["op"].as_str().unwrap_or("");
    let res: Result<(), String> = crate::props::replay_case(id, op, case);
    match res {
        Ok(()) => {
            println!("replay {id} {op}: property holds on this case now");
            0
        }
        Err(msg) => {
            println!("replay {id} {op}: still fails: {msg}");
            1
        }
    }
}
