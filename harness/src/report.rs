//! Evidence, violations, known findings, exit codes.

use serde_json::{json, Map, Value as J};
use std::collections::BTreeMap;
use std::sync::atomic::{AtomicU64, Ordering};
use std::sync::Mutex;
use std::time::Instant;

#[derive(Clone, Copy, Debug, PartialEq, Eq)]
pub enum Tier {
    Quick,
    Thorough,
}
impl Tier {
    pub fn name(self) -> &'static str {
        match self {
            Tier::Quick => "quick",
            Tier::Thorough => "thorough",
        }
    }
    pub fn pick<T>(self, quick: T, thorough: T) -> T {
        match self {
            Tier::Quick => quick,
            Tier::Thorough => thorough,
        }
    }
}

pub const VERIF_DIR: &str = "/verif";
/// where evidence, replays and journals are written: `/verif`, unless `NVCHECK_OUT` names a scratch
/// directory (used by tools/sb.sh to try source patches in a scratch worktree without touching
/// /verif/evidence); `known_findings.json` is always read from `/verif`
pub fn out_dir() -> String {
    std::env::var("NVCHECK_OUT").unwrap_or_else(|_| VERIF_DIR.to_string())
}
/// the repository whose README is read (C11): `/repo`, unless `NVCHECK_REPO` names a scratch worktree
pub fn repo_dir() -> String {
    std::env::var("NVCHECK_REPO").unwrap_or_else(|_| "/repo".to_string())
}

#[derive(Clone, Debug)]
pub struct KnownFinding {
    pub property: String,
    pub feature: String,
    pub status: String, // "known" | "fixed"
    pub what: String,
}

pub fn load_known_findings() -> Vec<KnownFinding> {
    let path = format!("{VERIF_DIR}/known_findings.json");
    let Ok(text) = std::fs::read_to_string(&path) else { return vec![] };
    let j: J = serde_json::from_str(&text).expect("known_findings.json must be valid JSON");
    let mut out = vec![];
    for e in j["findings"].as_array().cloned().unwrap_or_default() {
        out.push(KnownFinding {
            property: e["property"].as_str().unwrap_or("").to_string(),
            feature: e["feature"].as_str().unwrap_or("").to_string(),
            status: e["status"].as_str().unwrap_or("known").to_string(),
            what: e["what"].as_str().unwrap_or("").to_string(),
        });
    }
    out
}

struct Inner {
    samples: Vec<J>,
    violations: u64,
    violation_summaries: Vec<String>,
    replay_files: Vec<String>,
    known_fired: BTreeMap<String, (u64, String)>, // feature -> (count, first example)
    counters: BTreeMap<String, u64>,
    bounds: Map<String, J>,
    caps: Vec<String>,
    assumptions: Vec<String>,
    rule: String,
    extra: Map<String, J>,
}

pub struct Run {
    pub id: &'static str,
    pub tier: Tier,
    pub seed: u64,
    start: Instant,
    pub evaluations: AtomicU64,
    pub distinct: AtomicU64,
    pub states: AtomicU64,
    pub transitions: AtomicU64,
    pub traces: AtomicU64,
    pub has_states: std::sync::atomic::AtomicBool,
    known: Vec<KnownFinding>,
    inner: Mutex<Inner>,
}

pub const MAX_REPLAY_FILES: usize = 12;
pub const MAX_SAMPLES: usize = 16;

impl Run {
    pub fn new(id: &'static str, tier: Tier) -> Run {
        let seed = std::env::var("VERIF_SEED").ok().and_then(|s| s.parse::<u64>().ok()).unwrap_or(0);
        Run {
            id,
            tier,
            seed,
            start: Instant::now(),
            evaluations: AtomicU64::new(0),
            distinct: AtomicU64::new(0),
            states: AtomicU64::new(0),
            transitions: AtomicU64::new(0),
            traces: AtomicU64::new(0),
            has_states: std::sync::atomic::AtomicBool::new(false),
            known: load_known_findings(),
            inner: Mutex::new(Inner {
                samples: vec![],
                violations: 0,
                violation_summaries: vec![],
                replay_files: vec![],
                known_fired: BTreeMap::new(),
                counters: BTreeMap::new(),
                bounds: Map::new(),
                caps: vec![],
                assumptions: vec![],
                rule: String::new(),
                extra: Map::new(),
            }),
        }
    }

    pub fn elapsed(&self) -> f64 {
        self.start.elapsed().as_secs_f64()
    }
    pub fn eval(&self, n: u64) {
        self.evaluations.fetch_add(n, Ordering::Relaxed);
    }
    pub fn add_distinct(&self, n: u64) {
        self.distinct.fetch_add(n, Ordering::Relaxed);
    }
    pub fn add_states(&self, states: u64, transitions: u64) {
        self.has_states.store(true, Ordering::Relaxed);
        self.states.fetch_add(states, Ordering::Relaxed);
        self.transitions.fetch_add(transitions, Ordering::Relaxed);
    }
    pub fn add_traces(&self, n: u64) {
        self.has_states.store(true, Ordering::Relaxed);
        self.traces.fetch_add(n, Ordering::Relaxed);
    }
    pub fn count(&self, key: &str, n: u64) {
        *self.inner.lock().unwrap().counters.entry(key.to_string()).or_insert(0) += n;
    }
    pub fn bound(&self, key: &str, v: J) {
        self.inner.lock().unwrap().bounds.insert(key.to_string(), v);
    }
    pub fn extra(&self, key: &str, v: J) {
        self.inner.lock().unwrap().extra.insert(key.to_string(), v);
    }
    pub fn cap(&self, what: &str) {
        self.inner.lock().unwrap().caps.push(what.to_string());
    }
    pub fn assume(&self, what: &str) {
        let mut g = self.inner.lock().unwrap();
        if !g.assumptions.iter().any(|a| a == what) {
            g.assumptions.push(what.to_string());
        }
    }
    pub fn rule(&self, rule: &str) {
        let mut g = self.inner.lock().unwrap();
        if !g.rule.is_empty() {
            g.rule.push_str(" | ");
        }
        g.rule.push_str(rule);
    }
    pub fn sample(&self, s: J) {
        let mut g = self.inner.lock().unwrap();
        if g.samples.len() < MAX_SAMPLES {
            g.samples.push(s);
        }
    }
    pub fn violations(&self) -> u64 {
        self.inner.lock().unwrap().violations
    }

    /// Report a case on which the property does not hold.
    /// `features` are computed by the caller *from the input alone*; if one of them is listed as
    /// a known finding for this property, the case is a KNOWN-FINDING, otherwise a VIOLATION.
    pub fn violation(&self, summary: &str, case: J, features: &[String]) {
        for f in features {
            if let Some(k) = self
                .known
                .iter()
                .find(|k| k.property == self.id && &k.feature == f && k.status == "known")
            {
                let mut g = self.inner.lock().unwrap();
                let e = g.known_fired.entry(k.feature.clone()).or_insert((0, summary.to_string()));
                e.0 += 1;
                return;
            }
        }
        let mut g = self.inner.lock().unwrap();
        g.violations += 1;
        if g.replay_files.len() < MAX_REPLAY_FILES {
            let n = g.replay_files.len();
            let path = format!("{}/replays/{}-{}-{}.json", out_dir(), self.id, self.tier.name(), n);
            let body = json!({
                "property": self.id,
                "tier": self.tier.name(),
                "summary": summary,
                "features": features,
                "case": case,
            });
            let _ = std::fs::create_dir_all(format!("{}/replays", out_dir()));
            let _ = std::fs::write(&path, serde_json::to_string_pretty(&body).unwrap());
            println!("VIOLATION property={} replay={}", self.id, path);
            println!("  {summary}");
            g.replay_files.push(path);
            g.violation_summaries.push(summary.to_string());
        }
    }

    /// Write the evidence file, print KNOWN-FINDING lines, return the process exit code.
    pub fn finish(&self) -> i32 {
        let g = self.inner.lock().unwrap();
        let mut coverage = Map::new();
        coverage.insert("evaluations".into(), json!(self.evaluations.load(Ordering::Relaxed)));
        coverage.insert("distinct_nontrivial".into(), json!(self.distinct.load(Ordering::Relaxed)));
        coverage.insert("rule".into(), json!(g.rule));
        coverage.insert("samples".into(), J::Array(g.samples.clone()));
        if self.has_states.load(Ordering::Relaxed) {
            coverage.insert("states".into(), json!(self.states.load(Ordering::Relaxed)));
            coverage.insert("transitions".into(), json!(self.transitions.load(Ordering::Relaxed)));
            coverage.insert(
                "traces_validated_against_impl".into(),
                json!(self.traces.load(Ordering::Relaxed)),
            );
        }
        coverage.insert("exhaustive".into(), json!(g.caps.is_empty()));
        coverage.insert("bounds".into(), J::Object(g.bounds.clone()));
        coverage.insert("caps_hit".into(), json!(g.caps));
        let mut counters = g.counters.clone();
        let slow = crate::watch::SLOWEST_US.load(Ordering::Relaxed);
        if slow > 0 {
            counters.insert("slowest_watched_case_ms".into(), slow / 1000);
        }
        coverage.insert("counters".into(), json!(counters));
        let kf: Vec<J> = g
            .known_fired
            .iter()
            .map(|(f, (n, ex))| json!({"feature": f, "cases": n, "first": ex}))
            .collect();
        coverage.insert("known_findings_fired".into(), J::Array(kf));
        coverage.insert("violation_summaries".into(), json!(g.violation_summaries));
        for (k, v) in g.extra.iter() {
            coverage.insert(k.clone(), v.clone());
        }
        let ev = json!({
            "property_id": self.id,
            "tier": self.tier.name(),
            "seed": self.seed,
            "level": "model_checking",
            "coverage": J::Object(coverage),
            "assumptions": g.assumptions,
            "wall_s": self.elapsed(),
            "violations": g.violations,
        });
        let _ = std::fs::create_dir_all(format!("{}/evidence", out_dir()));
        let path = format!("{}/evidence/{}.json", out_dir(), self.id);
        std::fs::write(&path, serde_json::to_string_pretty(&ev).unwrap()).expect("write evidence");
        for (f, (n, ex)) in g.known_fired.iter() {
            let what = self
                .known
                .iter()
                .find(|k| k.property == self.id && &k.feature == f)
                .map(|k| k.what.clone())
                .unwrap_or_default();
            println!("KNOWN-FINDING: property={} {} [{} cases, first: {}] {}", self.id, f, n, ex, what);
        }
        println!(
            "{} {}: evaluations={} distinct_nontrivial={} violations={} known_findings={} wall={:.1}s{}",
            self.id,
            self.tier.name(),
            self.evaluations.load(Ordering::Relaxed),
            self.distinct.load(Ordering::Relaxed),
            g.violations,
            g.known_fired.len(),
            self.elapsed(),
            if g.caps.is_empty() { String::new() } else { format!(" CAPS={:?}", g.caps) }
        );
        if g.violations > 0 {
            1
        } else {
            0
        }
    }
}

/// Run `f` with panics caught and the default panic message suppressed.
pub fn quiet_catch<T>(f: impl FnOnce() -> T + std::panic::UnwindSafe) -> Result<T, String> {
    // every guarded library call is also a watchdog case; if an enclosing case is already in flight on this
    // thread that one keeps the slot (and its more informative label)
    let _w = crate::watch::enter_with(|| "a library call made outside any labelled case (building, formatting, hashing or comparing a value of the universe)".to_string());
    match std::panic::catch_unwind(f) {
        Ok(v) => Ok(v),
        Err(e) => Err(if let Some(s) = e.downcast_ref::<&str>() {
            s.to_string()
        } else if let Some(s) = e.downcast_ref::<String>() {
            s.clone()
        } else {
            "<non-string panic payload>".to_string()
        }),
    }
}

/// `catch_unwind` WITHOUT a watchdog case: for wrappers around a whole check (whose duration is not a case's)
pub fn quiet_catch_unwatched<T>(f: impl FnOnce() -> T + std::panic::UnwindSafe) -> Result<T, String> {
    match std::panic::catch_unwind(f) {
        Ok(v) => Ok(v),
        Err(e) => Err(if let Some(s) = e.downcast_ref::<&str>() {
            s.to_string()
        } else if let Some(s) = e.downcast_ref::<String>() {
            s.clone()
        } else {
            "<non-string panic payload>".to_string()
        }),
    }
}

pub fn install_quiet_panic_hook() {
    std::panic::set_hook(Box::new(|_| {}));
}
