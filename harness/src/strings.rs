//! E2 - strings: token alphabets per format, exhaustive token strings, deviation-bounded mutants
//! of well-formed strings, size-bound families.

use crate::emit;
use crate::fmts::F;
use crate::model::*;
use crate::universe as u;

pub const LITERALS: [&str; 22] =
    ["a", "0", "1", "0.5", "2", "-", "-1", "+", " ", "é", "😀", "\u{301}", "\\", "{", "}", "=", "\t", "\n", "\u{3000}", "\u{feff}", "\u{a0}", "\u{2028}"];

pub const NUMBER_EDGES: [&str; 58] = [
    "0", "1", "0.0", "1.0", "1.0000000001", "1.000000001", "1.0000000000000002", "1.00000000000000000001", "1.0000001", "1.1", "2",
    "0.99999999999999999999", "0.9999999999999999", "-0", "-0.0", "-0.0000000001", "-1", "+0", "+0.5", "+1", "00", "007", "1.", ".1", ".", "..",
    "1..2", "1.2.3", "0.", "1e0", "1e-5", "1E5", "1e400", "1e-400", "NaN", "nan", "inf", "infinity", "-inf", "0x10", "1_0", "٣", "²", "１", "1٣",
    "9223372036854775807", "9223372036854775808", "-9223372036854775808", "-9223372036854775809", "18446744073709551615",
    "18446744073709551616", "9007199254740993", "4294967296", "+-1", "--1", "-+1", "1-", "1+",
];

/// every distinct non-empty keyword of the format
pub fn keywords(f: &F) -> Vec<String> {
    let e = f.e;
    let mut v: Vec<&str> = vec![];
    v.extend(f.atom_prefixes());
    v.extend([e.compound.brackets.0, e.compound.brackets.1, e.compound.separator]);
    v.extend([
        e.compound.brackets_set_extension.0,
        e.compound.brackets_set_extension.1,
        e.compound.brackets_set_intension.0,
        e.compound.brackets_set_intension.1,
    ]);
    v.extend(f.connecters());
    v.extend([e.statement.brackets.0, e.statement.brackets.1]);
    v.extend(f.copulas());
    v.extend(f.punctuations());
    let s = &e.sentence;
    v.extend([s.stamp_brackets.0, s.stamp_brackets.1, s.stamp_past, s.stamp_present, s.stamp_future, s.stamp_fixed]);
    v.extend([s.truth_brackets.0, s.truth_brackets.1, s.truth_separator]);
    v.extend([e.task.budget_brackets.0, e.task.budget_brackets.1, e.task.budget_separator]);
    let mut out: Vec<String> = vec![];
    for k in v {
        if !k.is_empty() && !out.iter().any(|o| o == k) {
            out.push(k.to_string());
        }
    }
    out
}

/// the token alphabet: keywords, then literals (simplest last so mutants stay readable)
pub fn sigma(f: &F) -> Vec<String> {
    let mut v = keywords(f);
    for l in LITERALS {
        if !v.iter().any(|o| o == l) {
            v.push(l.to_string());
        }
    }
    v
}

/// number of token strings of length <= l over an alphabet of size n
pub fn g1_count(n: usize, l: usize) -> u64 {
    (0..=l).map(|k| (n as u64).pow(k as u32)).sum()
}

/// the idx-th token string (length-lexicographic enumeration), concatenated
pub fn g1_nth(sigma: &[String], l: usize, mut idx: u64) -> String {
    let n = sigma.len() as u64;
    let mut len = 0usize;
    loop {
        let c = n.pow(len as u32);
        if idx < c {
            break;
        }
        idx -= c;
        len += 1;
        assert!(len <= l);
    }
    let mut toks: Vec<&str> = Vec::with_capacity(len);
    for _ in 0..len {
        toks.push(sigma[(idx % n) as usize].as_str());
        idx /= n;
    }
    toks.concat()
}

/// well-formed base token lists for the mutators
pub fn bases(f: &F, thorough: bool) -> Vec<Vec<String>> {
    let mut out = vec![];
    for t in u::tops(f) {
        out.push(emit::term_toks(f, &t));
    }
    for t in u::towers(if thorough { 64 } else { 8 }) {
        out.push(emit::term_toks(f, &t));
    }
    if thorough {
        for t in u::towers(8) {
            out.push(emit::term_toks(f, &t));
        }
    }
    let cover = u::u_sent_cover(f);
    let stride = if thorough { 1 } else { 5 };
    for (i, v) in cover.iter().enumerate() {
        if i % stride == 0 {
            out.push(emit::value(f, v));
        }
    }
    // a nested compound mixing all bracket kinds
    let a = R::word("a");
    let mix = R::pair(
        Tag::Impl,
        R::node(Tag::SeqConj, vec![
            R::pair(Tag::Inh, R::node(Tag::SetExt, vec![a.clone()]), R::node(Tag::SetInt, vec![R::word("b1")])),
            R::interval(7),
            R::pair(Tag::Inh, R::node(Tag::Product, vec![R::node(Tag::SetExt, vec![R::word("x-y")]), R::atom(Tag::IVar, "a")]), R::atom(Tag::Operator, "b1")),
        ]),
        R::node(Tag::Neg, vec![R::image(Tag::ImageExt, 1, vec![a.clone(), R::atom(Tag::DVar, "b1")])]),
    );
    out.push(emit::value(f, &V { term: mix, punct: Some(P::Judgement), stamp: St::Fixed(-1), truth: vec![1.0, 0.9], budget: Some(vec![0.5, 0.75, 0.4]) }));
    out
}

/// All strings at one deviation from `base`: truncate after / before any token, delete or
/// duplicate one token, replace one token by any token of sigma, insert any token anywhere, cut
/// inside a multi-character token. Tokens are joined with `sep`.
pub fn mutants1(base: &[String], sigma: &[String], sep: &str, out: &mut Vec<String>) {
    let n = base.len();
    let join = |t: &[String]| t.join(sep);
    out.push(join(base));
    for i in 0..n {
        out.push(join(&base[..i])); // truncation before token i
        out.push(join(&base[i + 1..])); // drop a prefix
        let mut d = base.to_vec();
        d.remove(i);
        out.push(join(&d));
        let mut d = base.to_vec();
        d.insert(i, base[i].clone());
        out.push(join(&d));
        for s in sigma {
            let mut d = base.to_vec();
            d[i] = s.clone();
            out.push(join(&d));
        }
        // cut inside a multi-character token (keep a proper prefix of it, drop the rest of the input)
        let chars: Vec<char> = base[i].chars().collect();
        for cut in 1..chars.len() {
            let mut d = base[..i].to_vec();
            d.push(chars[..cut].iter().collect());
            out.push(join(&d));
        }
    }
    for i in 0..=n {
        for s in sigma {
            let mut d = base.to_vec();
            d.insert(i, s.clone());
            out.push(join(&d));
        }
    }
}

/// second deviation restricted to `truncation o one edit`: every prefix of every 1-edit mutant
pub fn mutants2_trunc(base: &[String], sigma: &[String], sep: &str, out: &mut Vec<String>) {
    let n = base.len();
    for cut in 1..=n {
        let pre = &base[..cut];
        for i in 0..cut {
            for s in sigma {
                let mut d = pre.to_vec();
                d[i] = s.clone();
                out.push(d.join(sep));
                let mut d = pre.to_vec();
                d.insert(i, s.clone());
                out.push(d.join(sep));
            }
            let mut d = pre.to_vec();
            d.remove(i);
            out.push(d.join(sep));
        }
    }
}

fn cut_chars(s: &str, n: usize) -> String {
    s.chars().take(n).collect()
}

/// G3: the size bound itself. t^k and (t u)^k cut at 512 chars; bracket towers 64 deep,
/// terminated and unterminated, for every bracket kind and connecter.
pub fn g3(f: &F, sigma: &[String]) -> Vec<String> {
    let mut out = vec![];
    for t in sigma {
        out.push(cut_chars(&t.repeat(512), 512));
        for u_ in sigma {
            out.push(cut_chars(&format!("{t}{u_}").repeat(256), 512));
        }
    }
    let c = &f.e.compound;
    let st = &f.e.statement;
    let depth = 64usize;
    let mut towers: Vec<(String, String, String)> = vec![]; // (open, leaf, close)
    for conn in f.connecters() {
        towers.push((format!("{}{}{}", c.brackets.0, conn, c.separator), "a".into(), c.brackets.1.into()));
        towers.push((format!("{}{}{}{}{}", c.brackets.0, conn, c.separator, f.e.atom.prefix_placeholder, c.separator), "a".into(), c.brackets.1.into()));
    }
    towers.push((c.brackets_set_extension.0.into(), "a".into(), c.brackets_set_extension.1.into()));
    towers.push((c.brackets_set_intension.0.into(), "a".into(), c.brackets_set_intension.1.into()));
    // the nested component after / before a sibling
    for conn in [c.connecter_conjunction, c.connecter_product, c.connecter_intersection_extension] {
        towers.push((format!("{}{}{}b{}", c.brackets.0, conn, c.separator, c.separator), "a".into(), c.brackets.1.into()));
        towers.push((format!("{}{}{}", c.brackets.0, conn, c.separator), "a".into(), format!("{}b{}", c.separator, c.brackets.1)));
    }
    for (l, r) in [c.brackets_set_extension, c.brackets_set_intension] {
        towers.push((format!("{l}b{}", c.separator), "a".into(), r.into()));
        towers.push((l.into(), "a".into(), format!("{}b{r}", c.separator)));
    }
    for cop in f.copulas() {
        towers.push((st.brackets.0.into(), "a".into(), format!("{}b{}", cop, st.brackets.1)));
        towers.push((format!("{}b{}", st.brackets.0, cop), "a".into(), st.brackets.1.into()));
    }
    for (open, leaf, close) in towers {
        for d in [1usize, 5, 6, 7, 8, 16, 63, depth] {
            let full = format!("{}{}{}", open.repeat(d), leaf, close.repeat(d));
            out.push(full.clone());
            // the whole tower as an element of a set / a conjunction / the operand of a symmetric
            // statement (containers hash their elements: cost per level must not multiply)
            if d >= 16 {
                out.push(format!("{}{}{}", c.brackets_set_extension.0, full, c.brackets_set_extension.1));
                out.push(format!("{}{}{}b{}{}{}", c.brackets.0, c.connecter_conjunction, c.separator, c.separator, full, c.brackets.1));
                out.push(format!("{}{}{}b{}", st.brackets.0, full, st.copula_similarity, st.brackets.1));
            }
            out.push(format!("{}{}", open.repeat(d), leaf)); // unterminated
            out.push(open.repeat(d)); // nothing inside
            out.push(format!("{}{}{}", open.repeat(d), leaf, close.repeat(d / 2))); // half closed
            out.push(format!("{}{}{}", open.repeat(d), leaf, close.repeat(d + 3))); // over-closed
            out.push(format!("{}{}", leaf, close.repeat(d))); // only closers
            // as a sentence / task with items after the unterminated tower
            let s = &f.e.sentence;
            out.push(format!("{}{}{} {}{}{}", open.repeat(d), leaf, s.punctuation_judgement, s.truth_brackets.0, "1", s.truth_brackets.1));
            out.push(format!("{}{}{}{}", f.e.task.budget_brackets.0, "0.5", f.e.task.budget_brackets.1, full));
        }
    }
    // number strings at and around every boundary a numeric slot has (range ends 0 and 1 with
    // their closest neighbours in both directions, integer limits, signs, exponents, non-ASCII
    // digits, repeated dots), in every slot: truth (alone, first, second), budget (first, second,
    // third), fixed stamp, interval (bare and as a component)
    {
        let s = &f.e.sentence;
        let t = &f.e.task;
        let p = s.punctuation_judgement;
        let (tl, tr, ts) = (s.truth_brackets.0, s.truth_brackets.1, s.truth_separator);
        let (bl, br, bs) = (t.budget_brackets.0, t.budget_brackets.1, t.budget_separator);
        for n in NUMBER_EDGES {
            out.push(format!("a{p} {tl}{n}{tr}"));
            out.push(format!("a{p} {tl}{n}{ts}0.9{tr}"));
            out.push(format!("a{p} {tl}0.9{ts}{n}{tr}"));
            out.push(format!("{bl}{n}{br} a{p}"));
            out.push(format!("{bl}0.5{bs}{n}{br} a{p}"));
            out.push(format!("{bl}0.5{bs}0.5{bs}{n}{br} a{p}"));
            out.push(format!("a{p} {}{}{n}{}", s.stamp_brackets.0, s.stamp_fixed, s.stamp_brackets.1));
            out.push(format!("{}{n}", f.e.atom.prefix_interval));
            out.push(format!("{}{}{}a{}{}{n}{}", c.brackets.0, c.connecter_conjunction_sequential, c.separator, c.separator, f.e.atom.prefix_interval, c.brackets.1));
            out.push(format!("{tl}{n}{tr}"));
            out.push(format!("{bl}{n}{br}"));
        }
    }
    // overlong numbers
    let s = &f.e.sentence;
    let t = &f.e.task;
    for digits in ["9".repeat(400), format!("0.{}", "1".repeat(400)), format!("{}.5", "0".repeat(400)), "1e400".into(), ".".repeat(50)] {
        out.push(format!("a{} {}{}{}", s.punctuation_judgement, s.truth_brackets.0, digits, s.truth_brackets.1));
        out.push(format!("{}{}{} a{}", t.budget_brackets.0, digits, t.budget_brackets.1, s.punctuation_judgement));
        out.push(format!("a{} {}{}{}{}", s.punctuation_judgement, s.stamp_brackets.0, s.stamp_fixed, digits, s.stamp_brackets.1));
        out.push(format!("{}{}", f.e.atom.prefix_interval, digits));
        out.push(format!("{}{}", s.truth_brackets.0, digits));
        out.push(format!("{}{}", t.budget_brackets.0, digits));
    }
    out
}

/// G5: a reduced, purely structural alphabet (one bracket pair of each kind, separator, two
/// connecters incl. an image connecter, two copulas, placeholder, an atom, a number, space,
/// punctuation, stamp/truth/budget brackets) explored to a greater length than G1.
pub fn structural_sigma(f: &F) -> Vec<String> {
    let e = f.e;
    let c = &e.compound;
    let mut v: Vec<&str> = vec![
        c.brackets.0,
        c.brackets.1,
        c.separator,
        c.brackets_set_extension.0,
        c.brackets_set_extension.1,
        e.statement.brackets.0,
        e.statement.brackets.1,
        c.connecter_conjunction,
        c.connecter_image_extension,
        c.connecter_negation,
        e.statement.copula_inheritance,
        e.statement.copula_instance_property,
        e.atom.prefix_placeholder,
        e.atom.prefix_variable_independent,
        "a",
        "1",
        " ",
        e.sentence.punctuation_judgement,
        e.sentence.truth_brackets.0,
        e.sentence.truth_brackets.1,
        e.task.budget_brackets.1,
        e.sentence.stamp_fixed,
    ];
    let mut out: Vec<String> = vec![];
    for k in v.drain(..) {
        if !k.is_empty() && !out.iter().any(|o| o == k) {
            out.push(k.to_string());
        }
    }
    out
}

/// G6 templates (prefix, suffix) around one code point X, in the format's own keywords
pub fn code_point_templates(f: &F, thorough: bool) -> Vec<(String, String)> {
    let e = f.e;
    let c = &e.compound;
    let st = &e.statement;
    let s = &e.sentence;
    let mut v: Vec<(String, String)> = vec![
        (String::new(), String::new()),
        ("a".into(), String::new()),
        (String::new(), "a".into()),
        (e.atom.prefix_variable_independent.into(), String::new()),
        (c.brackets_set_extension.0.into(), c.brackets_set_extension.1.into()),
        (st.brackets.0.into(), format!("{}a{}", st.copula_inheritance, st.brackets.1)),
        (String::new(), s.punctuation_judgement.into()),
    ];
    if thorough {
        v.extend([
            ("a".into(), "b".into()),
            (format!("{}a{}", st.brackets.0, st.copula_inheritance), st.brackets.1.into()),
            (format!("a{} {}", s.punctuation_judgement, s.truth_brackets.0), s.truth_brackets.1.into()),
            (format!("{}{}{}", c.brackets.0, c.connecter_product, c.separator), c.brackets.1.into()),
        ]);
    }
    v
}

/// G7: an EMPTY compound / set (every connecter with and without a dangling separator, both set bracket
/// pairs, bare compound brackets) at every position inside every container: alone, first, after a sibling,
/// before a sibling in every compound connecter and set, as subject and as predicate of a statement, and
/// one level deeper. (G1 / G5 are too short and one deviation from a well-formed string does not empty a
/// nested compound.)
pub fn g7_nested_empty(f: &F) -> Vec<String> {
    let e = f.e;
    let c = &e.compound;
    let (lb, rb, sep) = (c.brackets.0, c.brackets.1, c.separator);
    let mut empties: Vec<String> = vec![format!("{lb}{rb}")];
    for conn in f.connecters() {
        empties.push(format!("{lb}{conn}{rb}"));
        empties.push(format!("{lb}{conn}{sep}{rb}"));
        empties.push(format!("{lb}{conn}{sep}{sep}{rb}"));
    }
    for (l, r) in [c.brackets_set_extension, c.brackets_set_intension] {
        empties.push(format!("{l}{r}"));
        empties.push(format!("{l}{sep}{r}"));
    }
    let mut out = vec![];
    let mut wrap = |x: &str, out: &mut Vec<String>| {
        for conn in f.connecters() {
            out.push(format!("{lb}{conn}{sep}{x}{rb}"));
            out.push(format!("{lb}{conn}{sep}a{sep}{x}{rb}"));
            out.push(format!("{lb}{conn}{sep}{x}{sep}a{rb}"));
        }
        for (l, r) in [c.brackets_set_extension, c.brackets_set_intension] {
            out.push(format!("{l}{x}{r}"));
            out.push(format!("{l}a{sep}{x}{r}"));
            out.push(format!("{l}{x}{sep}a{r}"));
        }
        let st = &e.statement;
        out.push(format!("{}{x} {} a{}", st.brackets.0, st.copula_inheritance, st.brackets.1));
        out.push(format!("{}a {} {x}{}", st.brackets.0, st.copula_inheritance, st.brackets.1));
    };
    for x in &empties {
        out.push(x.clone());
        let mut one = vec![];
        wrap(x, &mut one);
        // one level deeper, for the product / conjunction / set / statement wrappings only
        for y in one.iter().step_by(7) {
            let mut two = vec![];
            wrap(y, &mut two);
            out.extend(two.into_iter().step_by(5));
        }
        out.extend(one);
    }
    out
}

/// G9: every ORDERED PAIR of 44 special code points (joiners, variation selectors, combining marks, direction marks,
/// BOM, soft hyphen, blanks of several kinds, emoji, regional indicators, keycap, tag characters, CJK, half-width,
/// surrogate-range neighbours, the extremes) in four templates: the pair alone at the end of a term, at its start, inside
/// a name, and after a set's opening bracket. Single code points are G6's business; what only a specific pair of
/// neighbours triggers is here.
pub fn g9_special_pairs(f: &F) -> Vec<String> {
    let specials: [char; 44] = [
        '\u{200d}', '\u{200c}', '\u{fe0f}', '\u{fe0e}', '\u{301}', '\u{308}', '\u{20e3}', '\u{200e}', '\u{200f}', '\u{202e}', '\u{2066}', '\u{feff}', '\u{ad}',
        '\u{a0}', '\u{3000}', '\u{2028}', '\u{85}', '\u{0}', '\u{7f}', '\u{1f468}', '\u{1f469}', '\u{1f680}', '\u{1f1e8}', '\u{1f1f3}', '\u{1f3fb}', '\u{2764}', '\u{2728}',
        '\u{e0001}', '\u{e007f}', '\u{e0101}', '\u{7532}', '\u{ff71}', '\u{ff10}', '\u{d7ff}', '\u{e000}', '\u{fffd}', '\u{ffff}', '\u{10000}', '\u{10ffff}',
        'a', '0', '-', '_', '\u{e9}',
    ];
    let e = f.e;
    let (sl, sr) = e.compound.brackets_set_extension;
    let (tl, cop) = (e.statement.brackets.0, e.statement.copula_inheritance);
    let mut out = Vec::with_capacity(specials.len() * specials.len() * 5);
    for x in specials {
        for y in specials {
            out.push(format!("{x}{y}"));
            out.push(format!("a{x}{y}"));
            out.push(format!("{x}{y}a{}", e.sentence.punctuation_judgement));
            out.push(format!("a{x}{y}b"));
            out.push(format!("{sl}{x}{y}{sr}"));
            out.push(format!("{tl}a {cop} {x}{y}"));
            out.push(format!("{}{}{} a{} {x}{y}", e.compound.brackets.0, e.compound.connecter_product, e.compound.separator, e.compound.separator));
        }
    }
    out
}
