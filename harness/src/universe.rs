//! E1 - bounded-exhaustive value universes (recipes). Every function enumerates a finite family
//! completely; nothing is sampled.

use crate::fmts::F;
use crate::model::*;
use crate::report::Tier;

/// All atoms of a format: 5 named kinds x names, 3 intervals, the placeholder.
pub fn all_atoms(f: &F) -> Vec<R> {
    let mut v = vec![];
    for &t in NAMED_ATOMS.iter() {
        for n in f.names {
            v.push(R::atom(t, n));
        }
    }
    for i in [0usize, 7, usize::MAX] {
        v.push(R::interval(i));
    }
    v.push(R::placeholder());
    v
}

/// thorough tier: atoms over the extended name alphabet
pub fn all_atoms_extended(f: &F) -> Vec<R> {
    let mut v = all_atoms(f);
    for &t in NAMED_ATOMS.iter() {
        for n in f.extra_names {
            v.push(R::atom(t, n));
        }
    }
    v
}

/// Reduced pool: one atom per kind, a dashed word, the placeholder (8 atoms).
pub fn pool(f: &F) -> Vec<R> {
    let mut v = pool_base();
    if f.name == "han" {
        // a name whose last character begins a two-character copula
        v.push(R::word("乙将"));
    }
    v
}

fn pool_base() -> Vec<R> {
    vec![
        R::word("a"),
        R::word("x-y"),
        R::atom(Tag::IVar, "b1"),
        R::atom(Tag::DVar, "a"),
        R::atom(Tag::QVar, "a"),
        R::interval(7),
        R::atom(Tag::Operator, "b1"),
        R::placeholder(),
    ]
}

/// All sequences over `items` of length lo..=hi.
pub fn sequences(items: &[R], lo: usize, hi: usize) -> Vec<Vec<R>> {
    let mut out: Vec<Vec<R>> = vec![];
    let mut cur: Vec<Vec<R>> = vec![vec![]];
    for len in 0..=hi {
        if len >= lo {
            out.extend(cur.iter().cloned());
        }
        if len == hi {
            break;
        }
        let mut next = Vec::with_capacity(cur.len() * items.len());
        for s in &cur {
            for it in items {
                let mut t = s.clone();
                t.push(it.clone());
                next.push(t);
            }
        }
        cur = next;
    }
    out
}

/// Every constructor applied to components from `items`, every arity <= w the constructor admits.
/// Unordered constructors take every *sequence* (so: every sub-multiset, with duplicates, in every
/// insertion order); images additionally every placeholder index 0..=n.
pub fn apply_all(items: &[R], w: usize, out: &mut Vec<R>) {
    let seqs1 = sequences(items, 1, w);
    let seqs0 = sequences(items, 0, w);
    for &tag in COMPOUND_TAGS.iter().chain(STATEMENT_TAGS.iter()) {
        match tag.shape() {
            Shape::Set | Shape::Seq => {
                for s in &seqs1 {
                    out.push(R::node(tag, s.clone()));
                }
            }
            Shape::Image => {
                for s in &seqs0 {
                    for idx in 0..=s.len() {
                        out.push(R::image(tag, idx, s.clone()));
                    }
                }
            }
            Shape::Unary => {
                for it in items {
                    out.push(R::node(tag, vec![it.clone()]));
                }
            }
            Shape::Pair | Shape::SymPair => {
                for a in items {
                    for b in items {
                        out.push(R::pair(tag, a.clone(), b.clone()));
                    }
                }
            }
            Shape::Atom => {}
        }
    }
}

/// One representative per constructor (30 terms): atoms as themselves, compounds over (a, b1).
pub fn reps(_f: &F) -> Vec<R> {
    let a = R::word("a");
    let b = R::atom(Tag::IVar, "b1");
    let mut v = vec![
        R::word("x-y"),
        R::placeholder(),
        R::atom(Tag::IVar, "a"),
        R::atom(Tag::DVar, "b1"),
        R::atom(Tag::QVar, "a"),
        R::interval(7),
        R::atom(Tag::Operator, "a"),
    ];
    for &tag in COMPOUND_TAGS.iter().chain(STATEMENT_TAGS.iter()) {
        v.push(match tag.shape() {
            Shape::Set | Shape::Seq => R::node(tag, vec![a.clone(), b.clone()]),
            Shape::Image => R::image(tag, 1, vec![a.clone(), b.clone()]),
            Shape::Unary => R::node(tag, vec![a.clone()]),
            _ => R::pair(tag, a.clone(), b.clone()),
        });
    }
    v
}

/// Chains nested `d` deep, one per single-child-capable position of every constructor.
pub fn towers(d: usize) -> Vec<R> {
    let leaf = R::word("a");
    let other = R::atom(Tag::DVar, "b1");
    let mut out = vec![];
    for &tag in COMPOUND_TAGS.iter().chain(STATEMENT_TAGS.iter()) {
        let variants: Vec<Box<dyn Fn(R) -> R>> = match tag.shape() {
            Shape::Unary => vec![Box::new(move |x| R::node(tag, vec![x]))],
            Shape::Set | Shape::Seq => {
                // the nested component alone, after a sibling, and before a sibling
                let (o1, o2) = (other.clone(), other.clone());
                vec![
                    Box::new(move |x| R::node(tag, vec![x])),
                    Box::new(move |x| R::node(tag, vec![o1.clone(), x])),
                    Box::new(move |x| R::node(tag, vec![x, o2.clone()])),
                ]
            }
            Shape::Image => vec![
                Box::new(move |x| R::image(tag, 0, vec![x])),
                Box::new(move |x| R::image(tag, 1, vec![x])),
            ],
            _ => {
                let o1 = other.clone();
                let o2 = other.clone();
                vec![
                    Box::new(move |x| R::pair(tag, x, o1.clone())),
                    Box::new(move |x| R::pair(tag, o2.clone(), x)),
                ]
            }
        };
        for mk in variants {
            let mut t = leaf.clone();
            for _ in 0..d {
                t = mk(t);
            }
            if d >= 15 {
                // the tower as an element of an unordered container (which hashes it)
                out.push(R::node(Tag::SetExt, vec![t.clone(), other.clone()]));
            }
            out.push(t);
        }
    }
    // mixed tower cycling through all constructors
    let mut t = leaf.clone();
    let all: Vec<Tag> = COMPOUND_TAGS.iter().chain(STATEMENT_TAGS.iter()).copied().collect();
    for i in 0..d {
        let tag = all[i % all.len()];
        t = match tag.shape() {
            Shape::Set | Shape::Seq | Shape::Unary => R::node(tag, vec![t]),
            Shape::Image => R::image(tag, i % 2, vec![t]),
            _ => {
                if i % 2 == 0 {
                    R::pair(tag, t, other.clone())
                } else {
                    R::pair(tag, other.clone(), t)
                }
            }
        };
    }
    out.push(t);
    out
}

/// wide terms: every variable-arity constructor with 4..9, 15..17, 31..33 and 40 components (every count up to 9 and the neighbours of the powers of two) (beyond any small
/// fixed-size shortcut), images with the placeholder first / in the middle / last
pub fn wide_terms() -> Vec<R> {
    let mut out = vec![];
    for n in [4usize, 5, 6, 7, 8, 9, 15, 16, 17, 31, 32, 33, 40] {
        let elems: Vec<R> = (0..n).map(|i| if i % 4 == 3 { R::atom(Tag::IVar, &format!("v{i}")) } else { R::word(&format!("w{i}")) }).collect();
        for &tag in COMPOUND_TAGS.iter() {
            match tag.shape() {
                Shape::Set | Shape::Seq => out.push(R::node(tag, elems.clone())),
                Shape::Image => {
                    for idx in [0, n / 2, n] {
                        out.push(R::image(tag, idx, elems.clone()));
                    }
                }
                _ => {}
            }
        }
    }
    out
}

/// Huge terms - the size dimension far beyond the widths above: every variable-arity constructor with 257, 1024,
/// 1500 and 4097 components (images with the placeholder first / in the middle / last but one / last), a product of 600
/// one-element sets and a conjunction of 260 statements (many nodes, little depth), a sequence of 4000 statements
/// (its text is longer than 65 535 characters) and a 70 000-character name. `max_width` caps the widths (the lexical
/// parser is quadratic in the number of components).
pub fn huge_terms(max_width: usize) -> Vec<R> {
    let mut out = vec![];
    for n in [257usize, 1024, 1500, 4097] {
        if n > max_width {
            continue;
        }
        let elems: Vec<R> = (0..n).map(|i| if i % 5 == 4 { R::atom(Tag::IVar, &format!("v{i}")) } else { R::word(&format!("w{i}")) }).collect();
        for &tag in COMPOUND_TAGS.iter() {
            match tag.shape() {
                Shape::Set | Shape::Seq => out.push(R::node(tag, elems.clone())),
                Shape::Image => {
                    for idx in [0, n / 2, n - 2, n] {
                        out.push(R::image(tag, idx, elems.clone()));
                    }
                }
                _ => {}
            }
        }
        // a wide unordered compound as an element of another one
        out.push(R::node(Tag::SetExt, vec![R::node(Tag::SetInt, elems.clone()), R::word("x")]));
    }
    let sets: Vec<R> = (0..600).map(|i| R::node(Tag::SetExt, vec![R::word(&format!("s{i}"))])).collect();
    out.push(R::node(Tag::Product, sets));
    let stmts: Vec<R> = (0..260).map(|i| R::pair(Tag::Inh, R::word(&format!("a{i}")), R::word(&format!("b{i}")))).collect();
    out.push(R::node(Tag::Conj, stmts));
    if max_width >= 4000 {
        let many: Vec<R> = (0..4000).map(|i| R::pair(Tag::Inh, R::word(&format!("a{i}")), R::word(&format!("b{i}")))).collect();
        out.push(R::node(Tag::SeqConj, many));
        out.push(R::word(&"n".repeat(70_000)));
        out.push(R::pair(Tag::Inh, R::word(&"甲".repeat(30_000)), R::word("b")));
    }
    out
}

/// fat towers: 16, 24 and 40 levels with FIVE components on every level (the nested child first, and last) - work
/// that is repeated per level doubles 40 times here; the ASCII text of the 40-level product has 481 characters
pub fn fat_towers() -> Vec<R> {
    let mut out = vec![];
    let sib = [R::word("b"), R::word("c"), R::atom(Tag::IVar, "d"), R::word("e")];
    for d in [16usize, 24, 40] {
        for &tag in &[Tag::Product, Tag::SetExt, Tag::Conj, Tag::SeqConj] {
            for last in [false, true] {
                let mut t = R::word("a");
                for _ in 0..d {
                    let mut kids: Vec<R> = sib.to_vec();
                    if last {
                        kids.push(t);
                    } else {
                        kids.insert(0, t);
                    }
                    t = R::node(tag, kids);
                }
                out.push(t);
            }
        }
    }
    out
}

/// siblings whose names are related: the second name extends the first (and the other way round), for names of 3, 16,
/// 19 and 40 characters; idiomatic NARS shapes (operations over {SELF}, nested conditionals) and every value obtained
/// from them by deleting one component of one variable-arity compound (a renderer or formatter that elides a
/// component makes such neighbours collide)
pub fn related_siblings_and_idioms() -> Vec<R> {
    let mut out = vec![];
    for base in ["abc", "temperatureSens1", "temperatureSensor01", "aVeryLongNameThatGoesOnForFortyCharacter"] {
        let (x, y) = (R::word(base), R::word(&format!("{base}2")));
        for (p, q) in [(&x, &y), (&y, &x)] {
            out.push(R::node(Tag::Product, vec![p.clone(), q.clone()]));
            out.push(R::node(Tag::SetExt, vec![p.clone(), q.clone()]));
            out.push(R::node(Tag::Conj, vec![p.clone(), q.clone(), R::word("z")]));
            out.push(R::pair(Tag::Inh, p.clone(), q.clone()));
            out.push(R::image(Tag::ImageExt, 1, vec![p.clone(), q.clone()]));
        }
        let (ox, oy) = (R::atom(Tag::Operator, base), R::atom(Tag::Operator, &format!("{base}2")));
        out.push(R::node(Tag::Product, vec![ox, oy]));
    }
    let w = |n: &str| R::word(n);
    let selfset = R::node(Tag::SetExt, vec![w("SELF")]);
    let idioms = vec![
        R::pair(Tag::Inh, R::node(Tag::Product, vec![selfset.clone(), w("ball")]), R::atom(Tag::Operator, "pick")),
        R::pair(Tag::Inh, R::node(Tag::Product, vec![selfset.clone(), w("ball"), w("table")]), R::atom(Tag::Operator, "put")),
        R::pair(Tag::ImplPred, R::node(Tag::SeqConj, vec![R::pair(Tag::Inh, R::node(Tag::SetExt, vec![w("ball")]), R::node(Tag::SetInt, vec![w("left")])), R::interval(3), R::pair(Tag::Inh, R::node(Tag::Product, vec![selfset.clone(), w("ball")]), R::atom(Tag::Operator, "pick"))]), R::pair(Tag::Inh, selfset.clone(), R::node(Tag::SetInt, vec![w("good")]))),
        R::pair(Tag::Impl, R::node(Tag::Conj, vec![R::pair(Tag::Inh, R::atom(Tag::IVar, "x"), w("bird")), R::pair(Tag::Inh, R::atom(Tag::IVar, "x"), w("flyer"))]), R::pair(Tag::Inh, R::atom(Tag::IVar, "x"), w("animal"))),
        R::pair(Tag::Inh, w("tim"), R::image(Tag::ImageExt, 1, vec![w("livingIn"), w("usa")])),
    ];
    fn deletions(r: &R, out: &mut Vec<R>) {
        for i in 0..r.kids.len() {
            // delete component i of this node (variable-arity nodes with more than one component only)
            if matches!(r.tag.shape(), Shape::Set | Shape::Seq) && r.kids.len() > 1 {
                let mut k = r.kids.clone();
                k.remove(i);
                out.push(R { kids: k, ..r.clone() });
            }
            // or delete deeper, inside component i
            let mut inner = vec![];
            deletions(&r.kids[i], &mut inner);
            for d in inner {
                let mut k = r.kids.clone();
                k[i] = d;
                out.push(R { kids: k, ..r.clone() });
            }
        }
    }
    for v in idioms {
        let mut ds = vec![];
        deletions(&v, &mut ds);
        out.push(v);
        out.extend(ds);
    }
    out
}

/// wide AND deep: three towers of depth 20 / 45 / 60 side by side in a product, a set and a conjunction (many nested
/// compounds completed before the next one is entered)
pub fn side_by_side_towers() -> Vec<R> {
    let mut out = vec![];
    for d in [20usize, 45, 60] {
        for &inner in &[Tag::SetExt, Tag::Product, Tag::Neg, Tag::Conj] {
            let tower = |leaf: &str| {
                let mut t = R::word(leaf);
                for _ in 0..d {
                    t = R::node(inner, vec![t]);
                }
                t
            };
            for &outer in &[Tag::Product, Tag::SetInt, Tag::Disj] {
                out.push(R::node(outer, vec![tower("a"), tower("b"), tower("c")]));
            }
            out.push(R::pair(Tag::Sim, tower("a"), tower("b")));
            out.push(R::pair(Tag::Sim, tower("b"), tower("a")));
            out.push(R::node(Tag::SetExt, vec![R::pair(Tag::Sim, tower("a"), tower("b")), R::pair(Tag::Sim, tower("b"), tower("a"))]));
        }
    }
    out
}

/// nested variety: every unordered constructor holding one multi-component unordered compound of
/// every kind, whose own contents range over all pairs and triples of the pool (the constructor
/// representatives all share the contents (a, b1), so they cannot vary what an inner set hashes to)
pub fn nested_variety(f: &F) -> Vec<R> {
    let pool = pool(f);
    let set_tags: Vec<Tag> = COMPOUND_TAGS.iter().copied().filter(|t| t.shape() == Shape::Set).collect();
    let mut contents: Vec<Vec<R>> = vec![];
    for i in 0..pool.len() {
        for j in (i + 1)..pool.len() {
            contents.push(vec![pool[i].clone(), pool[j].clone()]);
            for k in (j + 1)..pool.len() {
                contents.push(vec![pool[i].clone(), pool[j].clone(), pool[k].clone()]);
            }
        }
    }
    let mut out = vec![];
    for (n, c) in contents.iter().enumerate() {
        for (m, &inner) in set_tags.iter().enumerate() {
            // rotate the outer constructor so that every (outer, inner) pair occurs with many contents
            let outer = set_tags[(n + m) % set_tags.len()];
            out.push(R::node(outer, vec![R::node(inner, c.clone()), pool[n % pool.len()].clone()]));
            let sym = [Tag::Sim, Tag::Equiv, Tag::EquivConc][(n + m) % 3];
            out.push(R::node(outer, vec![R::pair(sym, c[0].clone(), c[1].clone()), R::node(inner, c.clone())]));
        }
    }
    out
}

/// Names that put one character of every identifier class (upper / lower / title-case / modifier
/// / other letter incl. right-to-left and CJK, decimal / letter / other number from several
/// scripts, '_', '-', and the supplementary-plane characters the formats admit) at the first, a
/// middle and the last position of a name. ('_' is never first: it is the placeholder prefix;
/// '-' is only inner.)
pub fn class_names() -> Vec<String> {
    let mut v = vec![];
    for c in ['Z', 'é', 'ß', 'ǅ', 'ʰ', 'א', '甲', 'ñ', 'İ', 'ı', '٣', '３', '৭', 'Ⅷ', '²', '½', '😀', '\u{e0101}', '\u{f0000}', '\u{10ffff}', '\u{1f300}'] {
        v.push(format!("{c}"));
        v.push(format!("{c}b"));
        v.push(format!("a{c}"));
        v.push(format!("a{c}b"));
        v.push(format!("{c}{c}"));
    }
    // truncation aliases: every ASCII keyword of the ASCII vocabulary re-spelled with letters whose
    // code points equal the keyword's characters modulo 2^8 (Latin Extended-A: '-' -> U+012D,
    // '>' -> U+013E, ...) and modulo 2^16 (Linear B: U+1002D ...), wherever those are identifier
    // characters - a comparison done on truncated code units takes them for the keyword
    {
        let f = crate::fmts::ascii();
        let ident = |c: char| c.is_alphanumeric() || c == '_' || c == '-' || c > '\u{1f2ff}';
        for kw in crate::strings::keywords(&f) {
            if !kw.is_ascii() {
                continue;
            }
            for off in [0x100u32, 0x10000] {
                let alias: Option<String> = kw.chars().map(|c| char::from_u32(c as u32 + off).filter(|a| ident(*a))).collect();
                if let Some(a) = alias {
                    v.push(format!("a{a}b"));
                    v.push(format!("{a}b"));
                    v.push(format!("a{a}"));
                }
            }
        }
    }
    // names that look like literals of other types (numbers in several notations, keywords)
    for n in ["7", "07", "007", "00", "10", "1e3", "1E3", "0x10", "0b1", "1_0", "inf", "NaN", "nan", "infinity", "true", "null", "None", "１"] {
        v.push(n.to_string());
    }
    // a letter followed by a run of digits of every length up to beyond the machine word (a name parsed
    // "naturally" overflows at 20 digits), all-digit names of those lengths, leading zeros
    for k in [1usize, 2, 5, 9, 10, 18, 19, 20, 21, 25, 40] {
        v.push(format!("t{}", "9".repeat(k)));
        v.push(format!("t{}", "1234567890".repeat(4)[..k].to_string()));
        v.push("9".repeat(k));
        if k >= 19 {
            v.push(format!("t0{}", "9".repeat(k)));
            v.push(format!("a1b{}", "8".repeat(k)));
        }
    }
    // names of 63, 64, 65, 70, 130, 300 characters (a look-ahead window or a fixed buffer ends somewhere)
    for k in [63usize, 64, 65, 70, 130, 300] {
        v.push("n".repeat(k));
        v.push(format!("{}z", "甲".repeat(k - 1)));
    }
    v.push("18446744073709551615".to_string());
    v.push("18446744073709551616".to_string());
    v.push("t18446744073709551616".to_string());
    for c in ['_', '-'] {
        v.push(format!("a{c}b"));
        if c == '_' {
            v.push(format!("a{c}"));
            v.push(format!("a{c}{c}b"));
        }
    }
    v
}

/// every class name as a word (and as a query variable) alone and in the positions where a name
/// meets a bracket, a separator or a copula
pub fn name_class_terms() -> Vec<R> {
    let a = R::word("a");
    let mut out = vec![];
    for n in class_names() {
        for tag in [Tag::Word, Tag::QVar] {
            let x = R::atom(tag, &n);
            out.push(x.clone());
            out.push(R::pair(Tag::Inh, x.clone(), a.clone()));
            out.push(R::pair(Tag::Inh, a.clone(), x.clone()));
            out.push(R::pair(Tag::Sim, x.clone(), x.clone()));
            out.push(R::node(Tag::SetExt, vec![x.clone()]));
            out.push(R::node(Tag::SetInt, vec![x.clone(), a.clone()]));
            out.push(R::node(Tag::Conj, vec![a.clone(), x.clone(), R::atom(Tag::IVar, "b1")]));
            out.push(R::node(Tag::Product, vec![a.clone(), x.clone(), a.clone()]));
            out.push(R::image(Tag::ImageInt, 1, vec![x.clone()]));
        }
    }
    out
}

pub fn name_class_sentences() -> Vec<V> {
    let mut out = vec![];
    for n in class_names() {
        let x = R::word(&n);
        out.push(V { term: x.clone(), punct: Some(P::Judgement), stamp: St::Eternal, truth: vec![], budget: None });
        out.push(V { term: x.clone(), punct: Some(P::Question), stamp: St::Present, truth: vec![], budget: Some(vec![]) });
        out.push(V { term: R::atom(Tag::Operator, &n), punct: Some(P::Goal), stamp: St::Fixed(5), truth: vec![1.0, 0.9], budget: Some(vec![0.5, 0.75, 0.4]) });
    }
    out
}

/// Hash twins: distinct terms that `Term::hash` cannot (or can barely) tell apart - the hash
/// ignores atom kinds and the constructor tags of compounds and statements, so a, #a, (--, a),
/// (*, a), <a --> b> vs <#a --> b> ... share their hash input. As siblings inside an unordered
/// constructor they land in the same bucket and are separated by `==` alone.
pub fn hash_twins() -> Vec<R> {
    let a = R::word("a");
    let da = R::atom(Tag::DVar, "a");
    let b = R::word("b1");
    vec![
        a.clone(),
        da.clone(),
        R::atom(Tag::IVar, "a"),
        R::atom(Tag::QVar, "a"),
        R::atom(Tag::Operator, "a"),
        R::node(Tag::Neg, vec![a.clone()]),
        R::node(Tag::Neg, vec![da.clone()]),
        R::node(Tag::Product, vec![a.clone()]),
        R::node(Tag::Product, vec![da.clone()]),
        R::node(Tag::SeqConj, vec![a.clone()]),
        R::node(Tag::SetExt, vec![a.clone()]),
        R::node(Tag::SetExt, vec![da.clone()]),
        R::node(Tag::SetInt, vec![a.clone()]),
        R::node(Tag::Conj, vec![a.clone()]),
        R::pair(Tag::Inh, a.clone(), b.clone()),
        R::pair(Tag::Inh, da.clone(), b.clone()),
        R::pair(Tag::Impl, a.clone(), b.clone()),
        R::pair(Tag::Sim, a.clone(), b.clone()),
        R::pair(Tag::Sim, da.clone(), b.clone()),
        R::node(Tag::Product, vec![a.clone(), b.clone()]),
        R::node(Tag::Product, vec![R::node(Tag::Product, vec![a.clone(), b.clone()])]),
        // the same leaves bracketed differently (a hash that streams the leaves cannot tell them apart)
        R::node(Tag::Product, vec![R::node(Tag::Product, vec![a.clone(), b.clone()]), R::word("c")]),
        R::node(Tag::Product, vec![a.clone(), R::node(Tag::Product, vec![b.clone(), R::word("c")])]),
        R::node(Tag::Product, vec![a.clone(), b.clone(), R::word("c")]),
        R::pair(Tag::Inh, R::pair(Tag::Inh, a.clone(), b.clone()), R::word("c")),
        R::pair(Tag::Inh, a.clone(), R::pair(Tag::Inh, b.clone(), R::word("c"))),
        R::node(Tag::Neg, vec![R::node(Tag::Neg, vec![a.clone()])]),
    ]
}

/// every ordered pair of distinct hash twins as the components of each constructor in `tags`
pub fn hash_twin_family(tags: &[Tag]) -> Vec<R> {
    let w = hash_twins();
    let mut out = vec![];
    for &t in tags {
        for i in 0..w.len() {
            for j in 0..w.len() {
                // i == j too: the value a confusion of the twins (x, y) would be mistaken for is (x, x)
                if i != j || t.shape() != Shape::Set {
                    out.push(mk2(t, &w[i], &w[j]));
                }
            }
        }
    }
    out
}

/// one compound / statement of constructor `tag` over (x, y)
pub fn mk2(tag: Tag, x: &R, y: &R) -> R {
    match tag.shape() {
        Shape::Set | Shape::Seq => R::node(tag, vec![x.clone(), y.clone()]),
        Shape::Image => R::image(tag, 1, vec![x.clone(), y.clone()]),
        Shape::Unary => R::node(tag, vec![x.clone()]),
        _ => R::pair(tag, x.clone(), y.clone()),
    }
}

/// "Reducible" shapes: terms a simplifying implementation (OpenNARS-style reductions: flattening
/// a compound nested in its own constructor, double negation, image of a product, a difference or
/// statement between equal terms, a singleton) would rewrite. The library promises to keep them
/// as written, so every one is a distinct value that must survive every operation.
pub fn reducible(_f: &F) -> Vec<R> {
    let a = R::word("a");
    let b = R::atom(Tag::IVar, "b1");
    let all: Vec<Tag> = COMPOUND_TAGS.iter().chain(STATEMENT_TAGS.iter()).copied().collect();
    let mut out = vec![];
    for &t in &all {
        for &u in &all {
            let inner = mk2(u, &a, &b);
            let inner_rev = mk2(u, &b, &a);
            match t.shape() {
                Shape::Set | Shape::Seq => {
                    for other in [&a, &b] {
                        out.push(R::node(t, vec![inner.clone(), other.clone()]));
                        out.push(R::node(t, vec![other.clone(), inner.clone()]));
                    }
                    out.push(R::node(t, vec![inner.clone()]));
                    out.push(R::node(t, vec![inner.clone(), a.clone(), b.clone()]));
                    out.push(R::node(t, vec![a.clone(), b.clone(), inner.clone()]));
                    out.push(R::node(t, vec![inner.clone(), inner_rev.clone()]));
                }
                Shape::Image => {
                    for idx in 0..=2 {
                        for other in [&a, &b] {
                            out.push(R::image(t, idx, vec![inner.clone(), other.clone()]));
                            out.push(R::image(t, idx, vec![other.clone(), inner.clone()]));
                        }
                    }
                    out.push(R::image(t, 0, vec![inner.clone()]));
                    out.push(R::image(t, 1, vec![inner.clone()]));
                    for idx in 0..=3 {
                        out.push(R::image(t, idx, vec![inner.clone(), a.clone(), b.clone()]));
                    }
                }
                Shape::Unary => {
                    out.push(R::node(t, vec![inner.clone()]));
                    out.push(R::node(t, vec![R::node(t, vec![inner.clone()])]));
                }
                _ => {
                    for other in [&a, &b] {
                        out.push(R::pair(t, inner.clone(), other.clone()));
                        out.push(R::pair(t, other.clone(), inner.clone()));
                    }
                    out.push(R::pair(t, inner.clone(), inner.clone()));
                    out.push(R::pair(t, inner.clone(), inner_rev.clone()));
                }
            }
        }
        // equal operands / a singleton / the constructor applied to itself twice
        match t.shape() {
            Shape::Set | Shape::Seq => {
                out.push(R::node(t, vec![a.clone(), a.clone()]));
                out.push(R::node(t, vec![a.clone()]));
            }
            Shape::Unary => {
                out.push(R::node(t, vec![R::node(t, vec![a.clone()])]));
                out.push(R::node(t, vec![R::node(t, vec![R::node(t, vec![a.clone()])])]));
            }
            Shape::Image => {}
            _ => out.push(R::pair(t, a.clone(), a.clone())),
        }
    }
    out
}

/// `tag` around `x` with one sibling `o`: the nested child last (`last`) or first
fn wrap(tag: Tag, x: R, o: &R, last: bool) -> R {
    match tag.shape() {
        Shape::Set | Shape::Seq => R::node(tag, if last { vec![o.clone(), x] } else { vec![x, o.clone()] }),
        Shape::Image => {
            if last {
                R::image(tag, 0, vec![o.clone(), x])
            } else {
                R::image(tag, 2, vec![x, o.clone()])
            }
        }
        Shape::Unary => R::node(tag, vec![x]),
        _ => {
            if last {
                R::pair(tag, o.clone(), x)
            } else {
                R::pair(tag, x, o.clone())
            }
        }
    }
}

/// Chains: every ordered tuple of `depth` compound / statement constructors nested in one another
/// (23^depth tuples), the nested child being the last component at every level, and - in a second
/// copy - the first. T2 holds every constructor *pair*; a shortcut that needs three or four specific
/// constructors on one path (a statement inside a set inside an image, ...) is only in here.
pub fn chains(depth: usize) -> Vec<R> {
    let all: Vec<Tag> = COMPOUND_TAGS.iter().chain(STATEMENT_TAGS.iter()).copied().collect();
    let a = R::word("a");
    let b = R::atom(Tag::IVar, "b1");
    let o = R::atom(Tag::DVar, "c");
    let n = all.len();
    let total = n.pow(depth as u32);
    let mut out = Vec::with_capacity(total * 2);
    for code in 0..total {
        for last in [true, false] {
            let mut k = code;
            let mut t = mk2(all[k % n], &a, &b);
            k /= n;
            for _ in 1..depth {
                t = wrap(all[k % n], t, &o, last);
                k /= n;
            }
            out.push(t);
        }
    }
    out
}

/// Medium-wide mixed terms: every variable-arity constructor over 4, 5 and 6 components that are
/// compounds / statements of *different* constructors (a sliding window over the representatives),
/// images with the placeholder first / inside / last.
pub fn mixed_wide(f: &F) -> Vec<R> {
    let reps: Vec<R> = reps(f);
    let m = reps.len();
    let mut out = vec![];
    for w in [4usize, 5, 6] {
        for i in 0..m {
            let comps: Vec<R> = (0..w).map(|j| reps[(i + j * 7) % m].clone()).filter(|r| r.tag != Tag::Placeholder).collect();
            for &tag in COMPOUND_TAGS.iter() {
                match tag.shape() {
                    Shape::Set | Shape::Seq => out.push(R::node(tag, comps.clone())),
                    Shape::Image => {
                        for idx in [0, comps.len() / 2, comps.len()] {
                            out.push(R::image(tag, idx, comps.clone()));
                        }
                    }
                    _ => {}
                }
            }
        }
    }
    out
}

/// U_term for a format and tier (distinct recipes; see DESIGN 3.1).
pub fn u_term(f: &F, tier: Tier) -> Vec<R> {
    let mut out = all_atoms(f);
    let reps = reps(f);
    match tier {
        Tier::Quick => {
            apply_all(&pool(f), 3, &mut out); // T1(3)
            let mut items = reps.clone();
            items.extend([R::word("b1"), R::atom(Tag::QVar, "x-y"), R::interval(0)]);
            apply_all(&items, 2, &mut out); // T2(2)
            for d in [2usize, 3, 4, 5, 6, 7, 8, 15, 16, 17, 31, 32, 33, 40] {
                out.extend(towers(d)); // every depth up to 8, the neighbours of 16 and 32, and 40
            }
            out.extend(wide_terms());
            out.extend(nested_variety(f));
            out.extend(chains(3));
            out.extend(mixed_wide(f));
        }
        Tier::Thorough => {
            out = all_atoms_extended(f);
            apply_all(&all_atoms(f), 3, &mut out); // T1(3) over all atoms
            apply_all(&all_atoms_extended(f), 2, &mut out); // T1(2) over the extended name alphabet
            let mut items = reps.clone();
            items.extend([R::word("b1"), R::atom(Tag::QVar, "x-y"), R::interval(0)]);
            apply_all(&items, 3, &mut out); // T2(3)
            // T3(2): constructors over one representative per constructor *pair*
            let mut pairs = vec![];
            apply_all(&reps, 1, &mut pairs);
            let mut t3_items: Vec<R> = pairs;
            t3_items.truncate(2000);
            apply_all_limited(&t3_items, &mut out);
            out.extend(towers(8));
            out.extend(towers(64));
            out.extend(wide_terms());
            out.extend(nested_variety(f));
            out.extend(chains(3));
            out.extend(chains(4));
            out.extend(mixed_wide(f));
        }
    }
    out.extend(numeric_terms());
    out.extend(reducible(f));
    // (widths up to 257 only: the lexical parser's cost grows with components x remaining text, and the 4000-statement
    // sequence / the 70 000-character name of `huge_terms(4097)` are added by the enum-only checks C01, C14, C16 themselves)
    out.extend(huge_terms(257));
    out.extend(side_by_side_towers());
    out.extend(fat_towers());
    out.extend(related_siblings_and_idioms());
    out.extend(name_class_terms());
    out.extend(hash_twin_family(&[Tag::SetExt, Tag::Conj, Tag::IntInt, Tag::Sim, Tag::Inh, Tag::Product]));
    out
}

/// arity-1 (and pair with a fixed atom) application, used for depth-3 contexts in the thorough tier
fn apply_all_limited(items: &[R], out: &mut Vec<R>) {
    let a = R::word("a");
    for &tag in COMPOUND_TAGS.iter().chain(STATEMENT_TAGS.iter()) {
        for it in items {
            match tag.shape() {
                Shape::Set | Shape::Seq | Shape::Unary => out.push(R::node(tag, vec![it.clone()])),
                Shape::Image => {
                    out.push(R::image(tag, 0, vec![it.clone()]));
                    out.push(R::image(tag, 1, vec![it.clone()]));
                }
                _ => {
                    out.push(R::pair(tag, it.clone(), a.clone()));
                    out.push(R::pair(tag, a.clone(), it.clone()));
                }
            }
        }
    }
}

pub const STAMPS: [St; 9] = [
    St::Eternal,
    St::Past,
    St::Present,
    St::Future,
    St::Fixed(0),
    St::Fixed(-1),
    St::Fixed(137),
    St::Fixed(isize::MAX),
    St::Fixed(isize::MIN),
];

pub fn truths() -> Vec<Vec<f64>> {
    vec![
        vec![],
        vec![0.0],
        vec![1.0],
        vec![0.5],
        vec![1e-7],
        vec![1.0, 0.9],
        vec![0.1, 0.0],
        vec![5e-324, 0.30000000000000004],
    ]
}

pub fn budgets() -> Vec<Option<Vec<f64>>> {
    vec![
        None,
        Some(vec![]),
        Some(vec![0.5]),
        Some(vec![0.5, 0.75]),
        Some(vec![0.5, 0.75, 0.4]),
        Some(vec![1.0, 0.0, 5e-324]),
        Some(vec![1e-7]),
    ]
}

/// top-level terms used under sentences / tasks: all atoms, all constructor representatives
pub fn tops(f: &F) -> Vec<R> {
    let mut v = all_atoms(f);
    v.extend(reps(f).into_iter().filter(|r| !r.tag.is_atom()));
    v
}

/// U_sent: tops x punctuations x stamps x truths x budgets (truth only where the variant has one).
pub fn u_sent(f: &F) -> Vec<V> {
    let mut out = vec![];
    let tr = truths();
    let bs = budgets();
    for t in tops(f) {
        for p in ALL_P {
            for st in STAMPS {
                let trs: &[Vec<f64>] =
                    if matches!(p, P::Judgement | P::Goal) { &tr[..] } else { &tr[..1] };
                for truth in trs {
                    for b in &bs {
                        out.push(V {
                            term: t.clone(),
                            punct: Some(p),
                            stamp: st,
                            truth: truth.clone(),
                            budget: b.clone(),
                        });
                    }
                }
            }
        }
    }
    out.extend(numeric_family());
    out.extend(name_class_sentences());
    out.extend(conventional_numbers_family());
    out
}

/// Numbers that mean something in NARS implementations (default budgets 0.8 / 0.5, 0.9 / 0.9, default confidence 0.9,
/// 0.99, 0.01, 0.1, the ends of the interval): every single, pair and triple of them as a budget and every single and pair
/// as a truth, on every punctuation - a special case for "the default" has exactly such a tuple as its trigger.
pub fn conventional_numbers_family() -> Vec<V> {
    let d = [0.0, 0.01, 0.1, 0.5, 0.8, 0.9, 0.99, 1.0];
    let term = R::pair(Tag::Inh, R::word("a"), R::word("b1"));
    let mut out = vec![];
    let mut budgets: Vec<Vec<f64>> = vec![];
    for &x in &d {
        budgets.push(vec![x]);
        for &y in &d {
            budgets.push(vec![x, y]);
            for &z in &d {
                budgets.push(vec![x, y, z]);
            }
        }
    }
    for p in ALL_P {
        for (k, b) in budgets.iter().enumerate() {
            let truth = if matches!(p, P::Judgement | P::Goal) { vec![d[k % 8], d[(k / 8) % 8]] } else { vec![] };
            out.push(V { term: term.clone(), punct: Some(p), stamp: if k % 2 == 0 { St::Eternal } else { St::Present }, truth, budget: Some(b.clone()) });
        }
    }
    out
}

/// A small cover of U_sent (every punctuation, stamp, truth arity, budget arity at least once per
/// top term family) for checks whose per-value cost is high.
pub fn u_sent_cover(f: &F) -> Vec<V> {
    let tr = truths();
    let bs = budgets();
    let tops = tops(f);
    let mut out = vec![];
    let mut k = 0usize;
    for t in &tops {
        for p in ALL_P {
            // rotate the other dimensions so that every value of each appears with every
            // punctuation and, over the tops, with every top
            for j in 0..3 {
                let st = STAMPS[(k + j * 4) % STAMPS.len()];
                let truth = if matches!(p, P::Judgement | P::Goal) {
                    tr[(k + j * 3) % tr.len()].clone()
                } else {
                    vec![]
                };
                let b = bs[(k + j * 2) % bs.len()].clone();
                out.push(V { term: t.clone(), punct: Some(p), stamp: st, truth, budget: b });
                k += 1;
            }
        }
    }
    out.extend(atom_top_products(f));
    out
}

/// The rotation above pairs every value of a dimension with every top, but not every COMBINATION of the other
/// items with every top. For the tops whose first characters can also open another item of a sentence (an atom
/// prefix that is a budget bracket, a digit name that continues as a number) the combination is what matters - a
/// top-level `$1` followed by a truth and NO budget, say - so for the atom tops the product is taken in full over
/// small item alphabets.
pub fn atom_top_products(f: &F) -> Vec<V> {
    let _ = f;
    let mut tops = vec![];
    for &t in NAMED_ATOMS.iter() {
        for n in ["0", "1", "a"] {
            tops.push(R::atom(t, n));
        }
    }
    tops.push(R::interval(7));
    let stamps = [St::Eternal, St::Fixed(0)];
    let truths: [Vec<f64>; 3] = [vec![], vec![0.5], vec![1.0, 0.9]];
    let budgets: [Option<Vec<f64>>; 4] = [None, Some(vec![]), Some(vec![0.5]), Some(vec![0.5, 0.75, 0.4])];
    let mut out = vec![];
    for t in &tops {
        for p in ALL_P {
            for st in stamps {
                for tr in &truths {
                    if !tr.is_empty() && !matches!(p, P::Judgement | P::Goal) {
                        continue;
                    }
                    for b in &budgets {
                        out.push(V { term: t.clone(), punct: Some(p), stamp: st, truth: tr.clone(), budget: b.clone() });
                    }
                }
            }
        }
    }
    out
}

/// Unsigned magnitudes with every decimal digit count 1..=20: 10^k - 1, 10^k, 10^k + 1; the
/// neighbours of the powers of two that bound the common integer and float types (2^7 .. 2^63,
/// 2^53 + 1 is the first integer an f64 cannot hold); all ten digits; the maximum.
pub fn magnitudes() -> Vec<u64> {
    let mut v: Vec<u64> = vec![0, 1, 7, 9, 10, 1234567890, 9876543210];
    for k in 1..=19u32 {
        let p = 10u64.pow(k);
        v.extend([p - 1, p, p + 1]);
    }
    for k in [7u32, 8, 15, 16, 24, 31, 32, 53, 63] {
        let p = 1u64 << k;
        v.extend([p - 1, p, p + 1]);
    }
    v.extend([u64::MAX - 1, u64::MAX]);
    v.sort();
    v.dedup();
    v
}

/// floats in [0, 1] with every count of significant decimal digits 1..=17 and every decimal
/// exponent down to the subnormals
pub fn digit_floats() -> Vec<f64> {
    let mut v = vec![];
    let mut s = String::from("0.");
    for k in 1..=17 {
        s.push(char::from(b'0' + (k % 10) as u8));
        v.push(s.parse::<f64>().unwrap());
    }
    for k in [1, 2, 3, 4, 5, 6, 7, 8, 9, 10, 15, 16, 17, 20, 22, 23, 100, 300, 307, 308, 310, 323] {
        v.push(format!("1e-{k}").parse::<f64>().unwrap());
        v.push(format!("9.5e-{k}").parse::<f64>().unwrap());
    }
    v.extend([0.25, 0.75, 0.125, 0.2, 0.7, 0.99, 0.999999, 1.0 - 1e-9, 1.0 - 1e-12]);
    v
}

/// terms around every magnitude: the bare interval and the interval between two events
pub fn numeric_terms() -> Vec<R> {
    let mut out = vec![];
    for m in magnitudes() {
        out.push(R::interval(m as usize));
        out.push(R::node(Tag::SeqConj, vec![R::word("a"), R::interval(m as usize), R::word("b1")]));
    }
    // intervals next to each other (a reader that adds up neighbouring intervals overflows on the extremes)
    for (x, y) in [(usize::MAX, 1usize), (1, usize::MAX), (usize::MAX, usize::MAX), (2, 3), (0, 0), (1 << 63, 1 << 63)] {
        out.push(R::node(Tag::SeqConj, vec![R::word("a"), R::interval(x), R::interval(y), R::word("b1")]));
        out.push(R::node(Tag::SeqConj, vec![R::interval(x), R::interval(y)]));
        out.push(R::node(Tag::Product, vec![R::interval(x), R::interval(y)]));
        out.push(R::node(Tag::SetExt, vec![R::interval(x), R::interval(y)]));
    }
    out
}

/// sentences / tasks around every signed magnitude as a fixed stamp and every digit float in
/// each numeric slot (single truth, both truth positions, each budget position)
pub fn numeric_family() -> Vec<V> {
    let mut out = vec![];
    let a = || R::word("a");
    let mut times: Vec<isize> = vec![isize::MIN, isize::MIN + 1];
    for m in magnitudes() {
        if m <= isize::MAX as u64 {
            times.push(m as isize);
            times.push(-(m as isize));
        }
    }
    times.sort();
    times.dedup();
    for t in times {
        out.push(V { term: a(), punct: Some(P::Judgement), stamp: St::Fixed(t), truth: vec![], budget: None });
        out.push(V { term: a(), punct: Some(P::Goal), stamp: St::Fixed(t), truth: vec![1.0, 0.9], budget: Some(vec![0.5]) });
        out.push(V { term: a(), punct: Some(P::Quest), stamp: St::Fixed(t), truth: vec![], budget: Some(vec![]) });
    }
    for x in digit_floats() {
        let mk = |truth: Vec<f64>, budget: Option<Vec<f64>>| V { term: R::word("a"), punct: Some(P::Judgement), stamp: St::Eternal, truth, budget };
        out.push(mk(vec![x], None));
        out.push(mk(vec![x, 0.5], None));
        out.push(mk(vec![0.5, x], None));
        out.push(mk(vec![], Some(vec![x])));
        out.push(mk(vec![], Some(vec![0.5, x])));
        out.push(mk(vec![], Some(vec![0.5, 0.5, x])));
        out.push(mk(vec![x, x], Some(vec![x, x, x])));
    }
    for m in magnitudes() {
        out.push(V { term: R::interval(m as usize), punct: Some(P::Judgement), stamp: St::Fixed(-1), truth: vec![1.0], budget: None });
    }
    out
}

/// N_F^collide (Han only): names that are legal identifiers (no atom prefix, no copula inside) but
/// spell an item keyword of the Han vocabulary: a budget (`预…算`) at the start, a stamp or truth
/// form at the end. Swept separately from the regular alphabets (DESIGN 3.1, KF-2).
pub fn han_collide_values() -> Vec<V> {
    let mut out = vec![];
    let mut names: Vec<String> = ["预算", "预1算", "预12算甲", "甲过去", "甲现在", "甲将来", "甲发生在1", "甲真值", "甲真1值"].iter().map(|s| s.to_string()).collect();
    // keyword affixes: every keyword of the Han vocabulary that is made of name characters, as a whole
    // name, as the beginning, the end and the middle of a name - as far as the result is well-formed
    // (does not begin with an atom prefix, holds no copula)
    let f = crate::fmts::han();
    let prefixes: Vec<&str> = f.atom_prefixes().into_iter().filter(|p| !p.is_empty()).collect();
    let copulas = f.copulas();
    for k in crate::strings::keywords(&f) {
        if !k.chars().all(|c| c.is_alphanumeric()) {
            continue;
        }
        for n in [k.clone(), format!("{k}甲"), format!("甲{k}"), format!("甲{k}乙"), format!("{k}1"), format!("{k}{k}")] {
            let ok = !prefixes.iter().any(|p| n.starts_with(p)) && !copulas.iter().any(|c| n.contains(c));
            if ok && !names.contains(&n) {
                names.push(n);
            }
        }
    }
    for n in &names {
        let t = R::word(n);
        out.push(V::term(t.clone()));
        out.push(V { term: t.clone(), punct: Some(P::Judgement), stamp: St::Eternal, truth: vec![], budget: None });
        out.push(V { term: t.clone(), punct: Some(P::Goal), stamp: St::Present, truth: vec![1.0, 0.9], budget: None });
        out.push(V { term: t.clone(), punct: Some(P::Question), stamp: St::Fixed(3), truth: vec![], budget: None });
        out.push(V { term: t.clone(), punct: Some(P::Judgement), stamp: St::Eternal, truth: vec![], budget: Some(vec![0.5]) });
        // not in leading / trailing position: inside a statement
        out.push(V::term(R::pair(Tag::Inh, t.clone(), R::word("a"))));
        out.push(V::term(R::pair(Tag::Inh, R::word("a"), t.clone())));
        out.push(V::term(R::node(Tag::Product, vec![R::word("a"), t.clone()])));
        out.push(V::term(R::node(Tag::Product, vec![t.clone(), R::word("a")])));
        out.push(V::term(R::node(Tag::SetExt, vec![t])));
    }
    out
}

/// valid floats that are pairwise distinct but include close neighbours (0 / 5e-324 / min normal,
/// 1-ulp / 0.9999999999999999 / 1, 0.3 / 0.30000000000000004, f32-indistinguishable pairs)
pub fn valid_floats() -> Vec<f64> {
    vec![0.0, 5e-324, 2.2250738585072014e-308, 1e-7, 0.1, 0.3, 0.30000000000000004, 0.5, 0.9, 0.9000000001, 0.9999999999999999, 1.0 - f64::EPSILON / 2.0, 1.0]
}

/// every truth (1-2 numbers) and budget (1-3 numbers) over `valid_floats`, around one term
pub fn float_family() -> Vec<V> {
    let fs = valid_floats();
    let t = R::word("a");
    let mut out = vec![];
    let mk = |truth: Vec<f64>, budget: Option<Vec<f64>>| V { term: R::word("a"), punct: Some(P::Judgement), stamp: St::Eternal, truth, budget };
    let _ = &t;
    for a in &fs {
        out.push(mk(vec![*a], None));
        out.push(mk(vec![], Some(vec![*a])));
        for b in &fs {
            out.push(mk(vec![*a, *b], None));
            out.push(mk(vec![], Some(vec![*a, *b])));
            for c in &fs {
                out.push(mk(vec![], Some(vec![*a, *b, *c])));
            }
        }
    }
    out
}

/// Every code point that is an identifier character of the format (both models) and occurs in none of its keywords,
/// over the range the string sweeps use (quick: the BMP, the emoji and tag blocks, every 64th code point above;
/// thorough: every scalar value). A name "a<c>b" built from it is a well-formed name of the format.
pub fn name_code_points(f: &F, tier: Tier) -> Vec<char> {
    let kw: std::collections::HashSet<char> = crate::strings::keywords(f).iter().flat_map(|k| k.chars().collect::<Vec<_>>()).collect();
    let all: Box<dyn Iterator<Item = u32>> = match tier {
        Tier::Quick => Box::new((0u32..=0x10ffff).filter(|c| *c <= 0xffff || (0x1f000..=0x1faff).contains(c) || (0xe0000..=0xe01ff).contains(c) || c % 64 == 0)),
        Tier::Thorough => Box::new(0u32..=0x10ffff),
    };
    all.filter_map(char::from_u32)
        .filter(|c| (f.e.is_valid_atom_name)(*c) && (f.l.atom.is_identifier)(*c) && !kw.contains(c) && !c.is_whitespace() && *c != '-')
        .collect()
}

/// the name built from one code point
pub fn cp_name(c: char) -> String {
    format!("a{c}b")
}

/// one word per code point of `name_code_points`, bare and as the subject of a statement
pub fn cp_name_terms(f: &F, tier: Tier) -> Vec<R> {
    let mut out = vec![];
    for c in name_code_points(f, tier) {
        let w = R::word(&cp_name(c));
        out.push(R::pair(Tag::Inh, w.clone(), R::atom(Tag::IVar, "b1")));
        out.push(w);
    }
    out
}
