//! Watchdog: turns "one case has been running for more than LIMIT seconds" into a verdict
//! (non-termination) that names the offending case.

use std::sync::atomic::{AtomicBool, AtomicUsize, Ordering};
use std::sync::{Mutex, OnceLock};
use std::time::{Duration, Instant};

const SLOTS: usize = 256;
pub const LIMIT_S: u64 = 20;

struct Slot {
    cur: Mutex<Option<(Instant, String)>>,
}

static TABLE: OnceLock<Vec<Slot>> = OnceLock::new();
static NEXT: AtomicUsize = AtomicUsize::new(0);
static STARTED: AtomicBool = AtomicBool::new(false);

thread_local! {
    static MY: usize = NEXT.fetch_add(1, Ordering::Relaxed) % SLOTS;
}

fn table() -> &'static Vec<Slot> {
    TABLE.get_or_init(|| (0..SLOTS).map(|_| Slot { cur: Mutex::new(None) }).collect())
}

/// Start the monitor thread once. `on_hang(case)` must report and terminate the process.
pub fn start(on_hang: impl Fn(String) + Send + 'static) {
    if STARTED.swap(true, Ordering::SeqCst) {
        return;
    }
    std::thread::spawn(move || loop {
        std::thread::sleep(Duration::from_millis(500));
        for s in table().iter() {
            let g = s.cur.lock().unwrap();
            if let Some((t, what)) = g.as_ref() {
                if t.elapsed() > Duration::from_secs(LIMIT_S) {
                    let w = what.clone();
                    drop(g);
                    on_hang(w);
                    return;
                }
            }
        }
    });
}

/// Run one case under the watchdog.
pub fn case<T>(what: &str, f: impl FnOnce() -> T) -> T {
    let i = MY.with(|m| *m);
    *table()[i].cur.lock().unwrap() = Some((Instant::now(), what.to_string()));
    let r = f();
    *table()[i].cur.lock().unwrap() = None;
    r
}
