//! Watchdog + crash journal.
//!
//! * Watchdog: turns "one case has consumed more than LIMIT_S seconds of CPU time on its thread"
//!   into a verdict (non-termination) that names the offending case. CPU time of the worker
//!   thread, not wall time, so a loaded or suspended machine cannot cause an alarm; a case that is
//!   blocked without burning CPU is reported after WALL_LIMIT_S.
//! * Journal: every case in flight is also written into a slot of a memory-mapped file, so that
//!   when the process is killed (stack overflow, abort) the supervising parent process can read
//!   which cases were running and probe them one by one in fresh subprocesses.

use std::sync::atomic::{AtomicBool, AtomicUsize, Ordering};
use std::sync::{Mutex, OnceLock};
use std::time::{Duration, Instant};

pub const SLOTS: usize = 256;
pub const SLOT_BYTES: usize = 4096;
pub const LIMIT_S: u64 = 20;
pub const WALL_LIMIT_S: u64 = 600;

struct Slot {
    /// (wall start, case, sequence number of the record, the worker's pthread id). The thread's CPU clock is
    /// NOT read when a case starts (a system call per case): the monitor reads it when it first sees a record
    /// that is more than a second old, and measures the CPU time burnt from then on.
    cur: Mutex<Option<(Instant, String, u64, libc::pthread_t, u64)>>,
}

/// slowest completed case so far, in microseconds of wall time (reported in the evidence)
pub static SLOWEST_US: std::sync::atomic::AtomicU64 = std::sync::atomic::AtomicU64::new(0);

fn clock_ns(clk: libc::clockid_t) -> u64 {
    let mut ts = libc::timespec { tv_sec: 0, tv_nsec: 0 };
    unsafe { libc::clock_gettime(clk, &mut ts) };
    ts.tv_sec as u64 * 1_000_000_000 + ts.tv_nsec as u64
}

/// CPU time consumed so far by the thread `t` (None if its clock cannot be read)
fn thread_cpu_ns(t: libc::pthread_t) -> Option<u64> {
    let mut clk: libc::clockid_t = 0;
    if unsafe { libc::pthread_getcpuclockid(t, &mut clk) } != 0 {
        return None;
    }
    Some(clock_ns(clk))
}

static TABLE: OnceLock<Vec<Slot>> = OnceLock::new();
static NEXT: AtomicUsize = AtomicUsize::new(0);
static STARTED: AtomicBool = AtomicBool::new(false);
static JOURNAL: AtomicUsize = AtomicUsize::new(0); // base address of the mapping, 0 = none

/// a thread's slot: taken from the free list on first use, given back when the thread ends (the call-history
/// explorer creates hundreds of thousands of short-lived threads)
struct MySlot(usize);
impl Drop for MySlot {
    fn drop(&mut self) {
        if self.0 < SLOTS {
            if let Some(t) = TABLE.get() {
                *t[self.0].cur.lock().unwrap() = None;
            }
            free_list().lock().unwrap().push(self.0);
        }
    }
}
static FREE: OnceLock<Mutex<Vec<usize>>> = OnceLock::new();
fn free_list() -> &'static Mutex<Vec<usize>> {
    FREE.get_or_init(|| Mutex::new((0..SLOTS).rev().collect()))
}

thread_local! {
    static MY_SLOT: MySlot = MySlot(free_list().lock().unwrap().pop().unwrap_or(usize::MAX));
}

/// this thread's slot index, `None` if more than SLOTS threads are alive (the case is then not watched)
fn my_slot() -> Option<usize> {
    MY_SLOT.try_with(|m| m.0).ok().filter(|i| *i < SLOTS)
}

fn table() -> &'static Vec<Slot> {
    TABLE.get_or_init(|| (0..SLOTS).map(|_| Slot { cur: Mutex::new(None) }).collect())
}

/// Map the journal file (created / truncated to SLOTS * SLOT_BYTES zero bytes).
pub fn open_journal(path: &str) {
    use std::os::unix::io::AsRawFd;
    let Ok(f) = std::fs::OpenOptions::new().read(true).write(true).create(true).truncate(true).open(path) else { return };
    if f.set_len((SLOTS * SLOT_BYTES) as u64).is_err() {
        return;
    }
    let p = unsafe {
        libc::mmap(std::ptr::null_mut(), SLOTS * SLOT_BYTES, libc::PROT_READ | libc::PROT_WRITE, libc::MAP_SHARED, f.as_raw_fd(), 0)
    };
    if p != libc::MAP_FAILED {
        JOURNAL.store(p as usize, Ordering::SeqCst);
    }
    std::mem::forget(f);
}

fn journal_set(i: usize, tag: &str, what: &str) {
    let base = JOURNAL.load(Ordering::Relaxed);
    if base == 0 {
        return;
    }
    unsafe {
        let slot = (base + i * SLOT_BYTES) as *mut u8;
        std::ptr::write_volatile(slot as *mut u32, 0);
        let mut off = 8usize;
        for part in [tag.as_bytes(), &[1u8][..], what.as_bytes()] {
            let n = part.len().min(SLOT_BYTES - off);
            std::ptr::copy_nonoverlapping(part.as_ptr(), slot.add(off), n);
            off += n;
        }
        std::sync::atomic::fence(Ordering::SeqCst);
        std::ptr::write_volatile(slot as *mut u32, (off - 8) as u32);
    }
}

fn journal_clear(i: usize) {
    let base = JOURNAL.load(Ordering::Relaxed);
    if base != 0 {
        unsafe { std::ptr::write_volatile((base + i * SLOT_BYTES) as *mut u32, 0) };
    }
}

/// Read the in-flight cases (tag, what) out of a journal file left behind by a dead process.
pub fn read_journal(path: &str) -> Vec<(String, String)> {
    let Ok(bytes) = std::fs::read(path) else { return vec![] };
    let mut out = vec![];
    for i in 0..SLOTS {
        let lo = i * SLOT_BYTES;
        let hi = ((i + 1) * SLOT_BYTES).min(bytes.len());
        if hi < lo + 8 {
            continue;
        }
        let s = &bytes[lo..hi];
        let len = u32::from_le_bytes([s[0], s[1], s[2], s[3]]) as usize;
        if len == 0 || 8 + len > s.len() {
            continue;
        }
        let body = &s[8..8 + len];
        if let Some(p) = body.iter().position(|b| *b == 1) {
            out.push((String::from_utf8_lossy(&body[..p]).to_string(), String::from_utf8_lossy(&body[p + 1..]).to_string()));
        }
    }
    out
}

/// Start the monitor thread once. `on_hang(case)` must report and terminate the process.
pub fn start(on_hang: impl Fn(String) + Send + 'static) {
    if STARTED.swap(true, Ordering::SeqCst) {
        return;
    }
    std::thread::spawn(move || {
        // per slot: (sequence number of the record first seen, the thread's CPU time then)
        let mut seen: Vec<Option<(u64, Option<u64>)>> = vec![None; SLOTS];
        loop {
            std::thread::sleep(Duration::from_millis(500));
            for (k, s) in table().iter().enumerate() {
                let g = s.cur.lock().unwrap();
                let Some((t, what, seq, tid, limit_s)) = g.as_ref() else {
                    seen[k] = None;
                    continue;
                };
                let wall = t.elapsed();
                if wall < Duration::from_secs(1) {
                    continue;
                }
                let now = thread_cpu_ns(*tid);
                match seen[k] {
                    Some((s0, cpu0)) if s0 == *seq => {
                        let burnt = match (now, cpu0) {
                            (Some(a), Some(b)) => Some(a.saturating_sub(b)),
                            _ => None,
                        };
                        let hang = match burnt {
                            Some(ns) => ns > *limit_s * 1_000_000_000 || wall > Duration::from_secs(WALL_LIMIT_S.max(30 * *limit_s)),
                            None => wall > Duration::from_secs(3 * *limit_s),
                        };
                        if hang {
                            let w = what.clone();
                            drop(g);
                            on_hang(w);
                            return;
                        }
                    }
                    _ => seen[k] = Some((*seq, now)),
                }
            }
        }
    });
}

/// Run one case under the watchdog (and the crash journal, with an empty tag).
pub fn case<T>(what: &str, f: impl FnOnce() -> T) -> T {
    tagged("", what, f)
}

/// Run one case under the watchdog and the crash journal. `tag` says how to probe the case again
/// (the format name for string inputs, "fold:<format>" for JSON lexical values).
pub fn tagged<T>(tag: &str, what: &str, f: impl FnOnce() -> T) -> T {
    tagged_with_limit(tag, what, LIMIT_S, f)
}

pub fn tagged_with_limit<T>(tag: &str, what: &str, limit_s: u64, f: impl FnOnce() -> T) -> T {
    let _g = enter_with_limit(|| what.to_string(), limit_s);
    let i = my_slot();
    if let Some(i) = i {
        journal_set(i, tag, what);
    }
    let r = f();
    if let Some(i) = i {
        journal_clear(i);
    }
    r
}

thread_local! {
    /// nesting depth of guards on this thread: only the outermost one owns the slot, so the case that is
    /// reported (and timed) is the outermost, most informative one; inner guards cost two TLS accesses
    static DEPTH: std::cell::Cell<u32> = const { std::cell::Cell::new(0) };
}

/// RAII form of `case`: the case is in flight until the guard is dropped. Guards nest.
pub struct Guard {
    outermost: Option<(usize, Instant)>,
}

pub fn enter(what: &str) -> Guard {
    enter_with(|| what.to_string())
}

/// like `enter`, the label is only built if this guard turns out to be the outermost one
pub fn enter_with(what: impl FnOnce() -> String) -> Guard {
    enter_with_limit(what, LIMIT_S)
}

/// CPU budget of the few deliberately LARGE cases (towers thousands of levels deep, a batch of 17 million characters): on the
/// pinned tree they need 1 - 7 s of CPU, which leaves too little room under the ordinary limit on an overloaded machine or
/// for a benign change that costs a small factor
pub const BIG_CASE_LIMIT_S: u64 = 120;

/// like `enter_with`, with a CPU limit of the caller's (only the outermost guard's limit counts)
pub fn enter_with_limit(what: impl FnOnce() -> String, limit_s: u64) -> Guard {
    let depth = DEPTH.with(|d| {
        let v = d.get();
        d.set(v + 1);
        v
    });
    if depth > 0 {
        return Guard { outermost: None };
    }
    let Some(i) = my_slot() else { return Guard { outermost: None } };
    let t0 = Instant::now();
    *table()[i].cur.lock().unwrap() = Some((t0, what(), NEXT.fetch_add(1, Ordering::Relaxed) as u64, unsafe { libc::pthread_self() }, limit_s));
    Guard { outermost: Some((i, t0)) }
}

impl Drop for Guard {
    fn drop(&mut self) {
        DEPTH.with(|d| d.set(d.get().saturating_sub(1)));
        if let Some((i, t0)) = self.outermost {
            *table()[i].cur.lock().unwrap() = None;
            SLOWEST_US.fetch_max(t0.elapsed().as_micros() as u64, Ordering::Relaxed);
        }
    }
}
