#!/bin/bash
# tools/confirm_round.sh <round> : in every agent worktree /tmp/w<round>-<ID>, for X in A B: the demo test fails with
# patchX and passes without it (the suite with the patch is run by tools/sb.sh). One line per change in /tmp/r<round>/confirm.txt
rnd=$1; mkdir -p /tmp/r$rnd; out=/tmp/r$rnd/confirm.txt; : > $out
export CARGO_NET_OFFLINE=true
for wt in /tmp/w$rnd-C*; do
  id=$(basename $wt | sed "s/w$rnd-//")
  for X in A B; do
    x=$(echo $X | tr A-Z a-z)
    [ -f $wt/patch$X.diff ] || continue
    ( cd $wt && git checkout -q -- src && export CARGO_TARGET_DIR=$wt/target
      without=$(cargo test --offline --test demo_${id}_$x 2>&1 | grep -E '^test result' | head -1 | cut -c1-60)
      if git apply patch$X.diff 2>/dev/null; then
        with=$(timeout 600 cargo test --offline --test demo_${id}_$x 2>&1 | grep -E '^test result|panicked|timed out' | head -1 | cut -c1-60)
        [ -z "$with" ] && with="(no result line: timeout or abort)"
        git checkout -q -- src
      else with="PATCH DOES NOT APPLY"; fi
      echo "$id-$X | without: $without | with: $with" >> $out )
  done
done
echo done >> $out
