#!/bin/bash
# tools/confirm_seed.sh <ID> : in the agent's scratch worktree /tmp/wt-<ID>, confirm that the demo test
# fails with the patch and passes without it, and that the crate's own suite passes with the patch.
id="$1"; wt=${WT:-/tmp/wt-$id}
cd "$wt" || exit 2
export CARGO_NET_OFFLINE=true
git checkout -q -- src && git apply patch.diff || { echo "patch does not apply on clean src"; exit 2; }
with=$(cargo test --offline --test demo_$id 2>&1 | grep -E '^test result' | head -1)
suite=$(cargo test --offline --lib 2>&1 | grep -E '^test result' | head -1)
git checkout -q -- src
without=$(cargo test --offline --test demo_$id 2>&1 | grep -E '^test result' | head -1)
git apply patch.diff
echo "$id WITH patch:    demo: $with"
echo "$id WITH patch:    suite(lib): $suite"
echo "$id WITHOUT patch: demo: $without"
