#!/bin/bash
# tools/coverage_audit.sh [IDs...] : which lines of /repo/src does no quick check ever execute?
# Builds the harness with -C instrument-coverage on the nightly toolchain (llvm-tools are installed there) in
# /tmp/covt, runs the given quick checks (default: all 17) with that binary, merges the profiles and prints the
# per-file summary plus every source line of /repo/src with an execution count of 0. An audit of the universes,
# not a check: nothing here decides a property. Evidence/replays of these runs go to /tmp/covt/out.
set -u
ids="${*:-C01 C02 C03 C04 C05 C06 C07 C08 C09 C10 C11 C12 C13 C14 C15 C16 C17}"
B=$(dirname "$(find /root/.rustup/toolchains/nightly-x86_64-unknown-linux-gnu -name llvm-profdata | head -1)")
mkdir -p /tmp/covt/prof /tmp/covt/out
(cd /verif/harness && CARGO_NET_OFFLINE=true CARGO_TARGET_DIR=/tmp/covt RUSTFLAGS="-C instrument-coverage" cargo +nightly build --release --offline 2>&1 | tail -1)
for id in $ids; do
  NVCHECK_OUT=/tmp/covt/out LLVM_PROFILE_FILE=/tmp/covt/prof/$id-%p.profraw /tmp/covt/release/nvcheck $id quick | tail -1
done
$B/llvm-profdata merge -sparse /tmp/covt/prof/*.profraw -o /tmp/covt/all.profdata
$B/llvm-cov report /tmp/covt/release/nvcheck -instr-profile=/tmp/covt/all.profdata --ignore-filename-regex='(registry|rustc|rustup|/verif/)' | sed 's/  */ /g' | cut -d' ' -f1,2,3,4,8,9,10
$B/llvm-cov show /tmp/covt/release/nvcheck -instr-profile=/tmp/covt/all.profdata --ignore-filename-regex='(registry|rustc|rustup|/verif/)' --show-line-counts-or-regions=false > /tmp/covt/show.txt 2>/dev/null
python3 - <<'PY'
import re
cur=None; runs={}
for line in open('/tmp/covt/show.txt', errors='replace'):
    if line.startswith('/') and line.rstrip().endswith(':'):
        cur=line.strip()[:-1]; runs[cur]=[]; continue
    m=re.match(r'\s*(\d+)\|\s*([0-9.kMGE]*)\|(.*)',line)
    if m and cur and m.group(2)=='0': runs[cur].append((int(m.group(1)),m.group(3)))
for f,ls in runs.items():
    if ls:
        print('=====',f,len(ls),'lines never executed')
        for ln,src in ls: print(f'{ln:5d} {src[:140]}')
PY
echo "remove /tmp/covt when done"
