#!/usr/bin/env python3
"""tools/keep_seed.py <PROP> <slug> <needs> <caught_by> <what>  : copy a confirmed seeded change from /tmp/wt-<PROP>
into /verif/seeded/<PROP>-<slug>/ with a meta.json."""
import sys, os, shutil, json, subprocess
prop, slug, needs, caught_by, what = sys.argv[1:6]
wt = f"/tmp/wt-{prop}"
wtdir = sys.argv[6] if len(sys.argv) > 6 else wt
patch_name = sys.argv[7] if len(sys.argv) > 7 else "patch.diff"
demo_name = sys.argv[8] if len(sys.argv) > 8 else None
d = f"/verif/seeded/{prop}-{slug}"
os.makedirs(d, exist_ok=True)
shutil.copy(f"{wtdir}/{patch_name}", f"{d}/patch.diff")
demo = demo_name or [f for f in os.listdir(f"{wtdir}/tests") if f.startswith("demo_")][0]
shutil.copy(f"{wtdir}/tests/{demo}", f"{d}/{demo}")
for rep in ("REPORT.txt", "REPORT.md"):
    if os.path.exists(f"{wtdir}/{rep}"):
        shutil.copy(f"{wtdir}/{rep}", f"{d}/REPORT.txt")
base = subprocess.check_output(["git", "-C", "/repo", "rev-parse", "--short", "HEAD"]).decode().strip()
meta = {
    "breaks_property": prop,
    "what": what,
    "needs_to_manifest": needs,
    "base_commit": base,
    "origin": "independent sub-agent given only the property text and a scratch worktree",
    "confirmed": [
        "patch applies on a clean checkout of base_commit (git apply --check)",
        "cargo test --workspace --offline with the patch: 157 unit tests pass (repository's own suite unedited)",
        f"cargo test --offline --test {demo[:-3]}: fails with the patch, passes without it (tools/confirm_seed.sh / tools/confirm_round.sh)",
        "tools/try_patch.sh (on /repo, restored afterwards) or tools/sb.sh (scratch worktree of the same commit) patch.diff <checks>: suite and checks run with the patch",
    ],
    "caught_by_quick": caught_by.split(",") if caught_by else [],
}
json.dump(meta, open(f"{d}/meta.json", "w"), indent=1, ensure_ascii=False)
print("kept", d)
