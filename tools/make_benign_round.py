#!/usr/bin/env python3
"""tools/make_benign_round.py <round> [IDs...] : worktrees /tmp/w<round>-<ID> and prompts /tmp/prompt<round>_<ID>.txt for
sub-agents that make BENIGN changes: realistic edits near a property's anchors that change behaviour the property
does not constrain and keep the property true. Used to test that the checks raise no false alarm."""
import sys, os, json, subprocess, shutil
rnd = sys.argv[1]
FOCUS = os.environ.get('FOCUS') or 'Spread them: one should touch the central mechanism named in the anchors, one a helper it depends on, one something only loosely related.'
ids = sys.argv[2:] or [f"C{i:02d}" for i in range(1, 18)]
props = {json.loads(l)["id"]: json.loads(l) for l in open("/verif/properties.jsonl")}
for pid in ids:
    wt = f"/tmp/w{rnd}-{pid}"
    if not os.path.isdir(wt):
        subprocess.check_call(["git", "-C", "/repo", "worktree", "add", "--detach", "-q", wt])
    if os.path.exists("/repo/Cargo.lock") and not os.path.exists(f"{wt}/Cargo.lock"):
        shutil.copy("/repo/Cargo.lock", f"{wt}/Cargo.lock")
    json.dump(props[pid], open(f"{wt}/PROPERTY.json", "w"), indent=1, ensure_ascii=False)
    prompt = f'''You are working alone in a scratch git worktree of the Rust crate "Narsese.rs" (a library for Narsese, the language of the NARS reasoning system: an enum term model and a lexical term model, ASCII / LaTeX / Han parsers and formatters, a lexical->enum "fold", a Typst renderer). Your worktree is {wt} . Work ONLY inside that directory; never touch /repo, /verif or any other path. There is no network: always pass --offline to cargo and export CARGO_NET_OFFLINE=true. A Cargo.lock is already in place. NEVER use `git stash` (the stash is shared between all worktrees of this repository and other engineers work in sibling worktrees): to get back to a clean tree save your diff to a file (`git diff -- src > x.diff`), `git checkout src`, and later `git apply x.diff`. Use a private build directory: export CARGO_TARGET_DIR={wt}/target . `cargo test --workspace --offline` currently passes 157 unit tests + 3 doc tests.

A semantic property the crate satisfies is in {wt}/PROPERTY.json (fields: statement, quantifier, why_tests_cant, anchors). Read it carefully, then read the code it is anchored in.

YOUR TASK: produce THREE independent BENIGN changes A, B, C (each relative to a clean checkout, not stacked) to the crate's source under src/, in or near the code the property is anchored in. A benign change is a realistic edit a maintainer might make - a refactoring, an optimisation, a different internal representation or algorithm, different wording or structure of an error message, a different (but still valid) hash function or iteration order, accepting or rejecting inputs that lie OUTSIDE the property's quantifier (e.g. a new lenient spelling, a stricter check on malformed input), different Debug output, a renamed private item, reordered match arms, a changed capacity or buffer strategy - that CHANGES SOME OBSERVABLE BEHAVIOUR THE PROPERTY DOES NOT CONSTRAIN but keeps the property, exactly as stated and for everything in its quantifier, TRUE. Make the changes as bold as you can while staying benign: the more behaviour changes without violating the statement, the better. {FOCUS} The crate must still compile and the existing test suite (unedited) must still pass completely. Do not touch Cargo.toml features, the `verif_hooks` code (src/verif_hooks.rs and the cfg(feature = "verif_hooks") items) or any existing test.

For each change also write a small integration test {wt}/tests/benign_{pid}_a.rs (resp. _b.rs, _c.rs), using only the public API (`use narsese::...`), that PASSES with your change and exercises the property on a handful of inputs around the code you touched (so that you have checked yourself that the property still holds there), and that, if possible, also asserts the behaviour that changed (so it FAILS on a clean checkout; say in the report whether it does).

Verify each: apply the change; run the full suite (`cargo test --workspace --offline`); run your test; save the diff (`git diff -- src > {wt}/patchA.diff`, resp. patchB.diff, patchC.diff); `git checkout src` before the next one.

DELIVERABLES (all inside {wt}): patchA.diff, patchB.diff, patchC.diff (each applicable with `git apply` on a clean checkout), tests/benign_{pid}_a.rs, _b.rs, _c.rs, and REPORT.txt (write it with a shell heredoc: `cat > REPORT.txt <<'EOT' ... EOT`) with, for each change: what changed and where; which observable behaviour differs now; a careful argument why the property as stated still holds for every input in its quantifier; the commands you ran and their results. Leave the working tree clean (git checkout src) at the end. In your final answer, summarise each change in 4-8 lines, including your confidence that it is truly benign.
'''
    open(f"/tmp/prompt{rnd}_{pid}.txt", "w").write(prompt)
    print("prepared", wt)
