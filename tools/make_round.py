#!/usr/bin/env python3
"""tools/make_round.py <round> [IDs...] : create scratch worktrees /tmp/w<round>-<ID> of /repo (detached HEAD,
Cargo.lock copied, PROPERTY.json = that property's line) and prompts /tmp/prompt<round>_<ID>.txt for independent
sub-agents. The prompt holds the property only - nothing from /verif - plus one-line summaries of ideas already
tried (from seeded/*/meta.json), so that a new round explores different sites."""
import sys, os, json, glob, subprocess, shutil
rnd = sys.argv[1]
ids = sys.argv[2:] or [f"C{i:02d}" for i in range(1, 18)]
props = {json.loads(l)["id"]: json.loads(l) for l in open("/verif/properties.jsonl")}
ASSUME = os.environ.get("ASSUME") if os.environ.get("ASSUME") is not None else open("/verif/tools/round_assume.txt").read().strip()
for pid in ids:
    wt = f"/tmp/w{rnd}-{pid}"
    if not os.path.isdir(wt):
        subprocess.check_call(["git", "-C", "/repo", "worktree", "add", "--detach", "-q", wt])
    if os.path.exists("/repo/Cargo.lock") and not os.path.exists(f"{wt}/Cargo.lock"):
        shutil.copy("/repo/Cargo.lock", f"{wt}/Cargo.lock")
    json.dump(props[pid], open(f"{wt}/PROPERTY.json", "w"), indent=1, ensure_ascii=False)
    tried = []
    for m in sorted(glob.glob(f"/verif/seeded/{pid}-*/meta.json")):
        tried.append("  - " + json.load(open(m))["what"])
    if os.environ.get("NO_TRIED"):
        tried = []
    tried_txt = ("NOTE: other engineers already tried the following ideas for this property, so do NOT repeat them or close variants - choose DIFFERENT sites and mechanisms:\n" + "\n".join(tried) + "\n") if tried else ""
    prompt = f'''You are working alone in a scratch git worktree of the Rust crate "Narsese.rs" (a library for Narsese, the language of the NARS reasoning system: an enum term model and a lexical term model, ASCII / LaTeX / Han parsers and formatters, a lexical->enum "fold", a Typst renderer). Your worktree is {wt} . Work ONLY inside that directory; never touch /repo, /verif or any other path. There is no network: always pass --offline to cargo and export CARGO_NET_OFFLINE=true. A Cargo.lock is already in place. NEVER use `git stash` (the stash is shared between all worktrees of this repository and other engineers work in sibling worktrees): to get back to a clean tree save your diff to a file (`git diff -- src > x.diff`), `git checkout src`, and later `git apply x.diff`. Use a private build directory: export CARGO_TARGET_DIR={wt}/target . `cargo test --workspace --offline` currently passes 157 unit tests + 3 doc tests.

A semantic property the crate is supposed to satisfy is in {wt}/PROPERTY.json (fields: statement, quantifier, why_tests_cant, anchors). Read it, then read the code it is anchored in.

{tried_txt}{ASSUME}

Produce TWO independent changes, A and B, at different sites (each relative to a clean checkout, not stacked): deliver patchA.diff + tests/demo_{pid}_a.rs and patchB.diff + tests/demo_{pid}_b.rs, and one REPORT.txt covering both. Verify each one separately exactly as described below (suite passes with it; its demo fails with it and passes without it). Leave the working tree clean (git checkout src) at the end, with both patch files and both demo files present.

YOUR TASK (for each of A and B): make ONE realistic change to the crate's source under src/ that BREAKS this property, while the crate still compiles and the existing test suite (unedited) still passes completely. The change must look like something a developer could plausibly introduce (a refactoring slip, an off-by-one, a wrong branch order, a missed case, a copy-paste of the neighbouring line, an "optimisation", a changed constant) - not sabotage like `panic!()` at the top of a function. Prefer a change that needs something SPECIFIC to manifest: a particular input shape or value, a particular nesting or position, a multi-step sequence of calls, a particular hash-iteration order, or two sites that each look fine alone - NOT something that any ordinary use would expose at once. Keep it small (a few lines). Do not touch Cargo.toml features, the `verif_hooks` code (src/verif_hooks.rs and the cfg(feature = "verif_hooks") items) or any existing test.

Also write a DEMONSTRATION for each: a new integration test file {wt}/tests/demo_{pid}_a.rs (resp. _b.rs) (uses only the crate's public API, `use narsese::...`) that FAILS with your change and PASSES without it. Verify both yourself: run it with the change (`cargo test --offline --test demo_{pid}_a`); then save the diff (`git diff -- src > {wt}/patchA.diff`), `git checkout src`, run the demo again to see it pass. Also run the full suite with the change applied (`cargo test --workspace --offline`).

DELIVERABLES (all inside {wt}):
1. patchA.diff / patchB.diff = output of `git diff -- src` (the source change only, NOT the demo test), each applicable with `git apply` on a clean checkout of the same commit.
2. tests/demo_{pid}_a.rs / tests/demo_{pid}_b.rs = the demonstration tests.
3. REPORT.txt (write it with a shell heredoc: `cat > REPORT.txt <<'EOT' ... EOT`) = for each change: what you changed and where; why it breaks the property; exactly what is needed for the breakage to manifest; the commands you ran (full test suite with the change; demo with the change; demo without the change) and their results.
In your final answer, summarise each change in 5-10 lines.
'''
    open(f"/tmp/prompt{rnd}_{pid}.txt", "w").write(prompt)
    print("prepared", wt)
