#!/bin/bash
# tools/run_all_seeds.sh : apply every kept seeded change in turn, run the quick checks its meta.json says
# catch it, restore /repo; prints one line per seed and writes /verif/seeded/RESULTS.txt
out=/verif/seeded/RESULTS.txt; : > $out
for d in /verif/seeded/*/; do
  slug=$(basename $d)
  checks=$(python3 -c "import json;print(' '.join(json.load(open('$d/meta.json'))['caught_by_quick']))")
  res=$(/verif/tools/try_patch.sh $d/patch.diff $checks 2>&1 | grep -E '^SUITE|^CHECK' | sed -E 's/ :: .*violations=([0-9]+).*/ violations=\1/' | tr '\n' ';')
  echo "$slug :: $res" | tee -a $out
done
