#!/bin/bash
# tools/run_all_seeds_sb.sh <nslots> : every kept seeded change (seeded/*/patch.diff) against the first check listed in
# its meta.json (caught_by_quick[0]); seeds recorded as not detected are skipped. One line per seed in seeded/RESULTS.txt.
# The repository's suite is not re-run here (it was run when the seed was kept): SB_NO_SUITE=1.
n=$1
mkdir -p /tmp/rseeds
ls -d /verif/seeded/C*/ > /tmp/rseeds/list.txt
for s in $(seq 1 $n); do
  (
    i=0
    while read -r d; do
      i=$((i+1)); [ $(( (i-1) % n + 1 )) -eq $s ] || continue
      name=$(basename $d)
      [ -s /tmp/rseeds/$name.log ] && continue
      chk=$(python3 -c "import json;m=json.load(open('$d/meta.json'));c=m.get('caught_by_quick') or [];print(c[0] if c else '')")
      if [ -z "$chk" ]; then echo "NOT-CLAIMED (recorded as not detected)" > /tmp/rseeds/$name.log; continue; fi
      SB_NO_SUITE=1 bash /tmp/sb_private.sh s$s $d/patch.diff $chk > /tmp/rseeds/$name.log.tmp 2>&1; mv /tmp/rseeds/$name.log.tmp /tmp/rseeds/$name.log
    done < /tmp/rseeds/list.txt
  ) &
done
wait
: > /verif/seeded/RESULTS.txt
for f in /tmp/rseeds/*.log; do
  echo "$(basename $f .log) :: $(grep -E '^CHECK|NOT-CLAIMED|does not apply|HARNESS-BUILD-FAILED' $f | cut -c1-150 | tr '\n' ';')" >> /verif/seeded/RESULTS.txt
done
echo "detected: $(grep -c 'exit=1' /verif/seeded/RESULTS.txt) / claimed: $(grep -vc 'NOT-CLAIMED' /verif/seeded/RESULTS.txt) / all: $(wc -l < /verif/seeded/RESULTS.txt)"
