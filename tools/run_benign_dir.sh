#!/bin/bash
# tools/run_benign_dir.sh <nslots> [dir] [outdir] : every <dir>/*/patch.diff (default /verif/benign) through a private copy
# of tools/sb.sh, spread over <nslots> scratch slots. Checks run per patch: all 17 for the changes written for C04, C05,
# C08, C09, C12 (parser / totality work), all but the three expensive string sweeps C04 C05 C12 for the others.
# Logs in <outdir>/<name>.log (default /tmp/rbenign); summary on stdout: "quiet" = every check run exited 0.
n=$1; dir=${2:-/verif/benign}; out=${3:-/tmp/rbenign}
mkdir -p $out
cp /verif/tools/sb.sh $out/sb.sh   # a private copy: editing tools/sb.sh meanwhile must not break running shells
ls -d $dir/C*/ > $out/list.txt
ALL="C01 C02 C03 C04 C05 C06 C07 C08 C09 C10 C11 C12 C13 C14 C15 C16 C17"
LIGHT="C01 C02 C03 C06 C07 C08 C09 C10 C11 C13 C14 C15 C16 C17"
tag=$(basename $out | tr -cd 'a-z0-9' | tail -c 4)
for s in $(seq 1 $n); do
  (
    i=0
    while read -r d; do
      i=$((i+1)); [ $(( (i-1) % n + 1 )) -eq $s ] || continue
      name=$(basename $d)
      [ -s $out/$name.log ] && continue
      case $name in C04-*|C05-*|C08-*|C09-*|C12-*) checks=$ALL ;; *) checks=$LIGHT ;; esac
      bash $out/sb.sh $tag$s $d/patch.diff $checks > $out/$name.log.tmp 2>&1; mv $out/$name.log.tmp $out/$name.log
    done < $out/list.txt
  ) &
done
wait
for f in $out/*.log; do
  bad=$(grep -o 'CHECK C[0-9]*: exit=[12]' $f | tr '\n' ' ')
  if [ -z "$bad" ] && grep -q "^CHECK" $f; then echo "$(basename $f .log): quiet"; else echo "$(basename $f .log): $bad $(grep -c 'HARNESS-BUILD-FAILED\|does not apply' $f)"; fi
done
