#!/bin/bash
# tools/run_benign_dir.sh <nslots> [checks...] : every /verif/benign/*/patch.diff through tools/sb.sh (all 17 quick checks by
# default) spread over <nslots> scratch slots; logs in /tmp/rbenign/<name>.log; summary on stdout
n=$1; shift
mkdir -p /tmp/rbenign
ls -d /verif/benign/C*/ > /tmp/rbenign/list.txt
for s in $(seq 1 $n); do
  (
    i=0
    while read -r d; do
      i=$((i+1)); [ $(( (i-1) % n + 1 )) -eq $s ] || continue
      name=$(basename $d)
      [ -s /tmp/rbenign/$name.log ] && continue
      /verif/tools/sb.sh g$s $d/patch.diff "$@" > /tmp/rbenign/$name.log.tmp 2>&1; mv /tmp/rbenign/$name.log.tmp /tmp/rbenign/$name.log
    done < /tmp/rbenign/list.txt
  ) &
done
wait
for f in /tmp/rbenign/*.log; do
  if grep -q "^QUIET" $f; then echo "$(basename $f .log): quiet"; else echo "$(basename $f .log): $(grep -o 'CHECK C[0-9]*: exit=[12]' $f | tr '\n' ' ') $(grep -c 'HARNESS-BUILD-FAILED\|does not apply' $f)"; fi
done
