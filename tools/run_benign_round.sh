#!/bin/bash
# tools/run_benign_round.sh <round> : for every /tmp/w<round>-<ID>/patch{A,B,C}.diff run tools/try_benign.sh with all
# 17 quick checks; one block per patch in /tmp/benign_round<round>.log
rnd=$1
out=/tmp/benign_round$rnd.log; : > $out
for d in /tmp/w$rnd-C*; do
  id=$(basename $d | sed "s/w$rnd-//")
  for x in A B C; do
    [ -f $d/patch$x.diff ] || continue
    echo "== $id/$x" | tee -a $out
    /verif/tools/try_benign.sh $d/patch$x.diff 2>&1 | tee -a $out | grep -E "^ALARM|^QUIET|^SUITE|does not apply" | cut -c1-200
  done
done
