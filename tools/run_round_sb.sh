#!/bin/bash
# tools/run_round_sb.sh <round> <nslots> [checks...] : every /tmp/w<round>-C??/patch?.diff through tools/sb.sh,
# spread over <nslots> scratch slots running side by side; one log per patch in /tmp/r<round>/<ID>-<X>.log
rnd=$1; n=$2; shift 2
mkdir -p /tmp/r$rnd
ls /tmp/w$rnd-C*/patch?.diff 2>/dev/null > /tmp/r$rnd/list.txt
for s in $(seq 1 $n); do
  (
    i=0
    while read -r p; do
      i=$((i+1)); [ $(( (i-1) % n + 1 )) -eq $s ] || continue
      id=$(basename $(dirname $p) | sed "s/w$rnd-//"); x=$(basename $p .diff | sed 's/patch//')
      [ -s /tmp/r$rnd/$id-$x.log ] && continue
      /verif/tools/sb.sh $rnd$s $p "$@" > /tmp/r$rnd/$id-$x.log.tmp 2>&1; mv /tmp/r$rnd/$id-$x.log.tmp /tmp/r$rnd/$id-$x.log
    done < /tmp/r$rnd/list.txt
  ) &
done
wait
echo done
