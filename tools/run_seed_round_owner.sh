#!/bin/bash
# tools/run_seed_round_owner.sh <round> <nslots> : every /tmp/w<round>-C??/patch?.diff against the OWNING property's quick
# check only (plus the repository's suite), through a private copy of tools/sb.sh; logs in /tmp/r<round>/<ID>-<X>.log
rnd=$1; n=$2
mkdir -p /tmp/r$rnd; cp /verif/tools/sb.sh /tmp/r$rnd/sb.sh
ls /tmp/w$rnd-C*/patch?.diff 2>/dev/null > /tmp/r$rnd/list.txt
for s in $(seq 1 $n); do
  (
    i=0
    while read -r p; do
      i=$((i+1)); [ $(( (i-1) % n + 1 )) -eq $s ] || continue
      id=$(basename $(dirname $p) | sed "s/w$rnd-//"); x=$(basename $p .diff | sed 's/patch//')
      [ -s /tmp/r$rnd/$id-$x.log ] && continue
      bash /tmp/r$rnd/sb.sh o$rnd$s $p $id > /tmp/r$rnd/$id-$x.log.tmp 2>&1; mv /tmp/r$rnd/$id-$x.log.tmp /tmp/r$rnd/$id-$x.log
    done < /tmp/r$rnd/list.txt
  ) &
done
wait
