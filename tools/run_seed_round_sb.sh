#!/bin/bash
# tools/run_seed_round_sb.sh <round> <nslots> : every /tmp/w<round>-C??/patch?.diff through tools/sb.sh with the owning
# property's check first, then every inexpensive check (all but C04 C05 C12 unless one of them is the owner);
# logs in /tmp/r<round>/<ID>-<X>.log
rnd=$1; n=$2
mkdir -p /tmp/r$rnd
ls /tmp/w$rnd-C*/patch?.diff 2>/dev/null > /tmp/r$rnd/list.txt
for s in $(seq 1 $n); do
  (
    i=0
    while read -r p; do
      i=$((i+1)); [ $(( (i-1) % n + 1 )) -eq $s ] || continue
      id=$(basename $(dirname $p) | sed "s/w$rnd-//"); x=$(basename $p .diff | sed 's/patch//')
      [ -s /tmp/r$rnd/$id-$x.log ] && continue
      others=$(for c in C01 C02 C03 C06 C07 C08 C09 C10 C11 C13 C14 C15 C16 C17; do [ $c != $id ] && echo -n "$c "; done)
      /verif/tools/sb.sh $rnd$s $p $id $others > /tmp/r$rnd/$id-$x.log.tmp 2>&1; mv /tmp/r$rnd/$id-$x.log.tmp /tmp/r$rnd/$id-$x.log
    done < /tmp/r$rnd/list.txt
  ) &
done
wait
echo done
