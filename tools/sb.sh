#!/bin/bash
# tools/sb.sh <slot> <patch.diff> [checks...]   try a source patch WITHOUT touching /repo or /verif/evidence:
#   /tmp/sb<slot>/repo     scratch git worktree of /repo's HEAD (created on first use, reset before and after)
#   /tmp/sb<slot>/harness  copy of /verif/harness whose narsese dependency points at that worktree
#   /tmp/sb<slot>/out      evidence / replays / journals of these runs (NVCHECK_OUT)
# Runs the repository's own suite on the patched worktree, then the given quick checks (default: all 17).
# Prints SUITE / CHECK lines like tools/try_patch.sh. Several slots can run side by side.
# Anything this reports about a miss or a false alarm is re-confirmed on /repo itself with tools/try_patch.sh.
set -u
slot=$1; patch="$(readlink -f "$2")"; shift 2
checks="${*:-C01 C02 C03 C04 C05 C06 C07 C08 C09 C10 C11 C12 C13 C14 C15 C16 C17}"
sb=/tmp/sb$slot; wt=$sb/repo
export CARGO_NET_OFFLINE=true
mkdir -p $sb/out
if [ ! -d $wt ]; then git -C /repo worktree add --detach -q $wt || exit 2; cp /repo/Cargo.lock $wt/Cargo.lock 2>/dev/null; fi
git -C $wt checkout -q --detach "$(git -C /repo rev-parse HEAD)" && git -C $wt checkout -q -- . && git -C $wt clean -fdq tests src 2>/dev/null
if ! git -C $wt apply --check "$patch" 2>/dev/null; then echo "patch does not apply"; exit 2; fi
git -C $wt apply "$patch"
trap 'git -C $wt checkout -q -- . ; git -C $wt clean -fdq tests src 2>/dev/null' EXIT
# the harness as COMMITTED in /verif (edits in progress in the working tree must not leak into a slot)
rm -rf $sb/harness.new && mkdir -p $sb/harness.new && git -C /verif archive HEAD harness | tar -x -C $sb/harness.new && rsync -a --delete --checksum $sb/harness.new/harness/ $sb/harness/ && rm -rf $sb/harness.new
sed -i "s#path = \"/repo\"#path = \"$wt\"#" $sb/harness/Cargo.toml
if [ -z "${SB_NO_SUITE:-}" ]; then
  suite=$(cd $wt && CARGO_TARGET_DIR=$sb/rtarget cargo test --workspace --no-fail-fast --offline 2>&1 | grep -E '^test result' | head -1)
  echo "SUITE: $suite"
fi
if ! (cd $sb/harness && CARGO_TARGET_DIR=$sb/target cargo build --release --offline >$sb/build.log 2>&1); then
  echo "HARNESS-BUILD-FAILED"; tail -15 $sb/build.log; exit 2
fi
bad=0
for id in $checks; do
  out=$(cd $sb/harness && NVCHECK_OUT=$sb/out NVCHECK_REPO=$wt $sb/target/release/nvcheck "$id" quick 2>&1); code=$?
  nviol=$(echo "$out" | grep -c '^VIOLATION')
  [ $code -ne 0 ] && bad=1
  echo "CHECK $id: exit=$code violation_lines=$nviol :: $(echo "$out" | grep -E "^$id quick" | cut -c1-160)"
  if [ $code -ne 0 ]; then echo "$out" | grep -A1 '^VIOLATION' | head -4 | cut -c1-500; echo "$out" | grep -iE 'machinery|panicked' | head -3 | cut -c1-300; fi
done
[ $bad -eq 0 ] && echo "QUIET: all of [$checks]"
exit 0
