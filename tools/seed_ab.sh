#!/bin/bash
# tools/seed_ab.sh <ID> <a|b> <checks...> : for round-3 worktrees /tmp/w3-<ID> holding patchA/B.diff and
# tests/demo_<ID>_a/b.rs: confirm (suite passes with the patch, demo fails with / passes without), then run
# the given quick checks against /repo with the patch applied (and restore /repo).
id="$1"; ab="$2"; shift 2
wt=${WT:-/tmp/w${ROUND:-3}-$id}; AB=$(echo $ab | tr a-z A-Z)
patch=$wt/patch$AB.diff; demo=demo_${id}_$ab
export CARGO_NET_OFFLINE=true
cd "$wt" || exit 2
git checkout -q -- src
git apply --check "$patch" || { echo "$id/$ab: patch does not apply"; exit 2; }
git apply "$patch"
with=$(cargo test --offline --test $demo 2>&1 | grep -E '^test result|^error' | head -1)
suite=$(cargo test --offline --lib 2>&1 | grep -E '^test result|^error' | head -1)
git checkout -q -- src
without=$(cargo test --offline --test $demo 2>&1 | grep -E '^test result|^error' | head -1)
echo "$id/$ab WITH:    demo: $with | suite: $suite" | cut -c1-230
echo "$id/$ab WITHOUT: demo: $without" | cut -c1-160
/verif/tools/try_patch.sh "$patch" "$@" 2>&1 | cut -c1-360 | grep -E '^CHECK|^SUITE|^  ' | head -${LINES_MAX:-8}
