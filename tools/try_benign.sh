#!/bin/bash
# tools/try_benign.sh <patch.diff> [checks...] : apply a BENIGN source patch to /repo, run the repo's suite and
# the given quick checks (default: all 17), restore /repo. A non-zero exit of any check is a false alarm to study.
set -u
patch="$(readlink -f "$1")"; shift
checks="${*:-C01 C02 C03 C04 C05 C06 C07 C08 C09 C10 C11 C12 C13 C14 C15 C16 C17}"
cd /repo || exit 2
if ! git diff --quiet; then echo "refusing: /repo has uncommitted changes"; exit 2; fi
if ! git apply --check "$patch" 2>/dev/null; then echo "patch does not apply"; exit 2; fi
git apply "$patch"
rm -rf /verif/target/evidence.keep; cp -r /verif/evidence /verif/target/evidence.keep
trap 'git -C /repo checkout -- . ; git -C /repo clean -fdq tests 2>/dev/null; rm -rf /verif/evidence; mv /verif/target/evidence.keep /verif/evidence' EXIT
suite=$(CARGO_NET_OFFLINE=true cargo test --workspace --no-fail-fast --offline 2>&1 | grep -E '^test result' | head -1)
echo "SUITE: $suite"
bad=0
for id in $checks; do
  out=$(cd /verif && ./check "$id" quick 2>&1); code=$?
  if [ $code -ne 0 ]; then
    bad=1
    echo "ALARM $id exit=$code"
    echo "$out" | grep -A1 '^VIOLATION' | head -6 | cut -c1-500
    echo "$out" | grep -iE 'machinery|error(\[|:)' | head -3 | cut -c1-300
  fi
done
[ $bad -eq 0 ] && echo "QUIET: all of [$checks]"
