#!/bin/bash
# tools/try_patch.sh <patch.diff> <check-id>...   apply a source patch to /repo, run the repo's own
# suite and the given quick checks against it, then ALWAYS restore /repo. Prints one line per step.
set -u
patch="$(readlink -f "$1")"; shift
cd /repo || exit 2
if ! git diff --quiet; then echo "refusing: /repo has uncommitted changes"; exit 2; fi
if ! git apply --check "$patch" 2>/dev/null; then echo "patch does not apply"; exit 2; fi
git apply "$patch"
# evidence written while /repo is patched must not survive: keep the clean-tree evidence aside
rm -rf /verif/target/evidence.keep; cp -r /verif/evidence /verif/target/evidence.keep
trap 'git -C /repo checkout -- . ; git -C /repo clean -fdq tests 2>/dev/null; rm -rf /verif/evidence; mv /verif/target/evidence.keep /verif/evidence' EXIT
suite=$(CARGO_NET_OFFLINE=true cargo test --workspace --no-fail-fast --offline 2>&1 | grep -E '^test result' | head -1)
echo "SUITE: $suite"
for id in "$@"; do
  out=$(cd /verif && ./check "$id" quick 2>&1)
  code=$?
  nviol=$(echo "$out" | grep -c '^VIOLATION')
  echo "CHECK $id: exit=$code violation_lines=$nviol :: $(echo "$out" | grep -E "^$id quick" | cut -c1-160)"
  echo "$out" | grep -A1 '^VIOLATION' | head -4 | cut -c1-400
done
